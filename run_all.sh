#!/bin/bash
# development helper: run every registered quick (or thorough) check in turn, print exit codes and wall times
cd "$(dirname "$0")"
tier=${1:-quick}
for p in C01 C02 C03 C05 C06 C07 C08 C09 C10 C11 C12 C13 C14 C15 C16 C18; do
  s=$(date +%s)
  ./check $p --tier $tier > /tmp/verif_out_$p.txt 2>&1
  e=$?
  echo "$p exit $e $(( $(date +%s) - s ))s  $(grep -c '^VIOLATION' /tmp/verif_out_$p.txt) violations, $(grep -c '^KNOWN-FINDING' /tmp/verif_out_$p.txt) known, $(grep -c '^INCONCLUSIVE' /tmp/verif_out_$p.txt) inconclusive"
done
rm -f /tmp/verif_out_C*.txt
