#!/usr/bin/env python3
"""Regenerates MANIFEST.json from the table below (kept in one place so it stays valid)."""
import json, os
HERE = os.path.dirname(os.path.abspath(__file__))

CHECKS = {}   # filled by the entries below
def chk(pid, cat, text, note, technique, design):
    CHECKS[pid] = dict(
        property_id=pid,
        quick_cmd="./check %s --tier quick" % pid,
        thorough_cmd="./check %s --tier thorough" % pid,
        evidence_file="evidence/%s.json" % pid,
        replay_cmd_template="./check %s --replay {path}" % pid,
        engine="pysym+z3",
        level_claimed=dict(category=cat, text=text, design_ref=design),
        level_note=note,
        technique=technique,
    )

chk("C02", "translation_validation",
    "Per program of an enumerated family, the Python text emitted by the real lexer/parser/code generator is "
    "executed symbolically and compared by z3 with the reference reading of the DSL over ALL field values of "
    "the typed domain (unsat per path); every sat model is replayed on the real evaluator before it is reported.",
    "Bounded to the enumerated program family; inputs unbounded within their sort. Trusted: CPython comparison "
    "semantics as transcribed in pysym (validated per path against the real evaluator), reference semantics, z3.",
    "symbolic execution of generated Python (pysym) + z3 LIA/strings, translation validation per program",
    "DESIGN.md section 6 C02")

chk("C09", "translation_validation",
    "Relational obligations over pairs of symbolic runs of the generated function (extra kwargs, experiment name, "
    "splitter declaration order, argument order, condition-field values under the same selected return, missing "
    "field) decided by z3 for all field values; sat-expected twins show the key does vary with every splitter and the salt.",
    "Program pairs from the splitter family; Python keyword binding as implemented in pysym; str(int) abstracted by an "
    "uninterpreted function (sound for equalities).",
    "relational symbolic execution (pysym) + z3 strings/LIA/EUF", "DESIGN.md section 6 C09")

chk("C12", "translation_validation",
    "Three solver lemmas with MD5 uninterpreted: deterministic_proba(s) = top32(MD5(utf8 s))/2^32 for every string "
    "(bit-precise binary64); the key handed to the choice function = salt + str(values of sorted splitters) for all "
    "field values, per program x typing of the family; the choice function hashes exactly its input_id once. "
    "Known-answer vectors anchor the MD5 symbol to hashlib.",
    "Splitter family (1-4 splitters, all declaration orders, 9 salts, 4 bodies); MD5/UTF-8/str(float) uninterpreted; "
    "'alphabetical' read as code-point order.",
    "symbolic execution (pysym) + z3 QF_FP/strings/EUF term equality", "DESIGN.md section 6 C12")

chk("C15", "translation_validation",
    "The generated function together with the real deterministic_choice/deterministic_proba/bisect is executed "
    "symbolically over str/int/binary64/bool/None splitter values and several salts; every path ending in an exception "
    "is asked for feasibility (unsat = total); plus 0 <= position < 1 for all strings and equal keys for values that print identically.",
    "Strings over Unicode scalar values up to U+2FFFF; str(int) modelled with CPython's 4300-digit limit (ints beyond it: recorded "
    "finding int-str-limit); concrete salt list.",
    "symbolic execution (pysym) + z3 QF_FP/strings: infeasibility of every exception path", "DESIGN.md section 6 C15")

chk("C03", "translation_validation",
    "deterministic_choice and CPython's bisect are executed from source for each weight vector of a family with a symbolic "
    "32-bit hash position and bit-precise binary64 arithmetic; z3 decides per leaf that no position outside the exact "
    "rational share (one grid point tolerance) selects the group, that zero-weight groups are unreachable, that u=0 selects "
    "the first positive group and that groups spanning >= 3 grid points are selectable; per alignment program the arguments the "
    "generated code hands to the choice function select, for all positions, inside the declared partition.",
    "Concrete weight vectors (family up to 64 groups, 1e-9..1e9, plus sizes around every group-count threshold read off the "
    "implementation), all 2^32 positions each; symbolic integer weights < 2^16 for n <= 4/8; symbolic float weights out of reach "
    "(symbolic x symbolic fp.mul); bisect.py stands for the C accelerator; hash grid by lemma L1 (also run here).",
    "symbolic execution (pysym) + z3 QF_FP/BV per leaf", "DESIGN.md section 6 C03")

chk("C10", "translation_validation",
    "(i) key lemmas: the hashed string is the same scheme key in every branch and the choice function hashes exactly its "
    "input_id; (ii) for ordered pairs of weight vectors z3 decides, bit-precisely and for all 2^32 positions, that no unit is "
    "assigned a later group under the second vector.",
    "Pairs from a finite family (percentage/decimal ramps, scaled, n<=3 alphabet pairs, long ramps, sizes around code-derived thresholds).",
    "symbolic execution (pysym) + z3 QF_FP/BV on pairs of path conditions sharing k", "DESIGN.md section 6 C10")

chk("C11", "model_checking",
    "One inductive step of recompile/__init__/__call__, executed from source from an arbitrary evaluator state satisfying "
    "the representation invariant, with a symbolic new text and an abstract compile outcome; z3 decides per path that the "
    "post-state is (new checksum, new function) on success and the unchanged pre-state on failure, that failure raises, that "
    "the unchanged text is a no-op and that nothing outside self is written.",
    "The stored checksum is discovered as a term D(text); collision-freeness assumed for the digest's argument; compile step abstracted "
    "into four outcomes; extra per-instance state: invariant strengthened to 'any value' and re-checked, else a bounded history search "
    "(incl. round trips over 39 confusable texts and experiments named after the generated code's identifiers) as replay and, "
    "on every run, as a cross-check of the abstract compile step; a representation-independent behavioural step analysis from "
    "three bounded pre-histories; induction over histories argued in DESIGN.md.",
    "symbolic execution (pysym) of the evaluator class + z3 EUF/BV, inductive step", "DESIGN.md section 6 C11")

chk("C16", "translation_validation",
    "Obligations (a)-(f) of the random.choices-style contract as solver queries over symbolic executions of "
    "deterministic_choice (and CPython's random.choices from source): index range, no argument mutation (effect tracking), "
    "weights vs cum_weights, no weights vs equal weights per n, error partition incl. symbolic totals, forwarding for "
    "input_id=None, no zero-weight draw, and no draw at all when an id (any str, also '') is given.",
    "Population sizes and weight vectors from finite lists (n up to 2^20+1 for the range obligation, plus sizes around code-derived "
    "thresholds); all 2^32 positions each.",
    "symbolic execution (pysym) + z3 QF_FP/BV", "DESIGN.md section 6 C16")

chk("C18", "translation_validation",
    "probit and confidence_interval executed from source over the reals: z3 NRA decides lower<=upper, radicand>=0, equality "
    "with the textbook Agresti-Coull/Wald formulas over the module's own z, narrowing in n and widening in z (root-free on "
    "squares, portfolio of strategies), probit symmetry/sign/monotonicity from hand-instantiated log axioms, and the method dispatch.",
    "Exact reals (a bit-precise binary64 run of the interval code is used for bug hunting only: negative radicands at the corners "
    "p in {0,1}); log uninterpreted with three axioms; 'z >= true normal quantile' is claimed only through "
    "z >= sqrt(pi/8)*|log(a/(1-a))| (solver) plus the cited fact that this logit bound dominates the normal quantile.",
    "symbolic execution (pysym, exact-real mode) + z3 NRA/nlsat portfolio", "DESIGN.md section 6 C18")

chk("C01", "translation_validation",
    "The generated function, deterministic_choice/proba and bisect are executed symbolically with effect tracking and "
    "world-indexed models of every process-local entropy source; per path the effect set must be empty and no entropy "
    "value may reach a condition or the outcome (two-world self-composition query otherwise). The real code generator is "
    "executed symbolically on live ASTs with set iteration order chosen by the world: one text over all worlds.",
    "Lexer/LALR tables run concretely (their hash-seed independence only exercised by the multi-process replay); "
    "programs of the splitter family.",
    "symbolic execution (pysym) with effect/entropy tracking + z3 self-composition", "DESIGN.md section 6 C01")

chk("C06", "model_checking",
    "Unbounded one-step lexer lemmas over the live rule patterns as single regular-membership queries (LX-REJECT, LX-ONLY), "
    "pysym on error() for the handlers, PS-GLUE (parse_source hands text/tokens/result through unchanged, lets errors out, rejects an "
    "unterminated comment, leaves no lexer state behind) and LX-DRIVER (the vendored sly tokenizer loop applies the master pattern to "
    "its own text position by position), bounded CFG inclusion L(G_impl) in L(G_ref) by CYK circuits (SAT), "
    "PARSE-ABSORB by symbolic execution of the LR driver's error branch, evaluator step from C11.",
    "Token sequences <= K (18 quick / 24 thorough); sly's LexerMeta and LALR table construction trusted "
    "(validated on solver-generated near-misses); reference lexer/grammar are our reading of the documentation.",
    "z3 regex/sequence theory (one-step lemmas) + SAT CYK circuits + pysym", "DESIGN.md section 6 C06")

chk("C07", "translation_validation",
    "LX-ACCEPT for every token class over all lexemes/contexts (z3 regex), L(G_ref) in L(G_impl) up to K tokens (CYK/SAT), "
    "solver-generated sentences through the real pipeline, and per program of an extended family the symbolic execution of "
    "the generated function ends only in a group or the unroutable error for all type-compatible inputs; PS-GLUE and LX-DRIVER as in C06.",
    "Identifier pool for code generation (lexical part covers all identifiers); K tokens; known findings: Python reserved "
    "words and helper names as identifiers.",
    "z3 regex lemmas + SAT CYK circuits + symbolic execution (pysym) per program", "DESIGN.md section 6 C07")

chk("C08", "model_checking",
    "Unbounded one-step lemmas for whitespace, line comments and the block-comment state (opener, chunk, first-close), "
    "LX-ACCEPT in every right context and LX-ONLY for ignore rules, each one z3 regular-membership query over the live "
    "patterns; PS-GLUE and LX-DRIVER tie the lemmas to parse_source and to the vendored tokenizer loop; trivia variants of family "
    "programs validated through the real parser.",
    "Induction over lexer steps argued in DESIGN.md (not machine-checked); marker code point U+E000 excluded from texts.",
    "z3 regex/sequence theory, marker encoding of one lexer step", "DESIGN.md section 6 C08")

chk("C14", "translation_validation",
    "Per program the three generated texts (exec'd by recompile; generate_code nested / exposed, black-formatted) are run "
    "symbolically as CPython would (own imports, module or evaluator globals) and z3 decides for all field values that "
    "all pairs of paths agree on (key, population, weights) or the exception class.",
    "Program family (documented, single predicates, skeletons, deep, splitter family); black executed natively.",
    "relational symbolic execution (pysym) + z3", "DESIGN.md section 6 C14")

chk("C05", "translation_validation",
    "Stage lemmas: lexer token values (pysym on the token functions + LX-ACCEPT), totality and range of the numeric conversions, "
    "PS-GLUE / LX-DRIVER for what reaches the lexer, pydantic-v1 union validation with "
    "member order/smart_union read from the live classes and a symbolic literal (z3 strings/FP), the real code generator "
    "run symbolically with the literal symbolic (every occurrence a faithful repr/str rendering or a solver query against "
    "Python's literal syntax), and per example literal the compiled routing/returned value over all field values of both sorts.",
    "pydantic acceptance is a model (validated on a corpus per run); repr/str round-trip is CPython's contract; example "
    "literal list for the run stage; recorded findings: integer literals beyond CPython's 4300-digit limit, decimal literals beyond binary64.",
    "z3 strings/regex/FP on stage lemmas + symbolic execution (pysym) of generator and generated code", "DESIGN.md section 6 C05")

chk("C13", "translation_validation",
    "PythonCodeGen.generate() is executed symbolically on live ASTs with one string symbolic (7 positions x 2 layouts); the "
    "returned text is decomposed and every raw occurrence of the symbolic string must be, for all contents, exactly one "
    "Python string token (z3 regex query); repr()-rendered occurrences are faithful by contract. Adversarial corpus through "
    "the real pipeline with constant-masked AST comparison as validation.",
    "ASTs built without pydantic validation; structural model of Python string tokens; CPython repr contract.",
    "symbolic execution (pysym) of the code generator + z3 regex membership", "DESIGN.md section 6 C13")

NOT_APPLICABLE = {
    "C04": "statistical chi-square claim about MD5 output on concrete populations: not a forall-claim a solver can "
           "decide, and MD5's 64 rounds are a non-target; structural preconditions are decided under C09/C12",
    "C17": "quantifies over CPython thread schedules at bytecode granularity; no installed engine models that "
           "scheduler and an interleaving model would decide our atomicity assumption rather than the code",
}
ALL = ["C%02d" % i for i in range(1, 19)]

def main():
    na = dict(NOT_APPLICABLE)
    for p in ALL:
        if p not in CHECKS and p not in na:
            na[p] = "check not built yet (work in progress; see DESIGN.md section 6)"
    m = dict(
        version=1,
        setup_cmd="./setup.sh",
        hooks=dict(guard="PYAB_VERIF", enable="no source hooks are needed: every observation point is reachable "
                   "by introspection of the live modules", baseline_off_cmd=
                   "cd /repo && /venv/bin/python -m pytest -ra -q -p no:cacheprovider --timeout=900",
                   source_commits=[], add_only=True),
        engines=[
            dict(name="pysym", path="vf/pysym", serves_properties=sorted(CHECKS),
                 kind_free_text="path-forking symbolic interpreter for a Python subset over CPython's ast, z3 back end"),
        ],
        checks=[CHECKS[k] for k in sorted(CHECKS)],
        notes="Solver-based checking of the real code; see DESIGN.md. Exit code 2 = inconclusive (never success).",
        not_applicable=[dict(property_id=k, reason=v) for k, v in sorted(na.items())],
    )
    with open(os.path.join(HERE, "MANIFEST.json"), "w") as fh:
        json.dump(m, fh, indent=1)
    print("MANIFEST.json: %d checks, %d not applicable" % (len(m["checks"]), len(m["not_applicable"])))

if __name__ == "__main__":
    main()
