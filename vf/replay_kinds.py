"""Property-specific replay kinds (loaded on demand by vf/replay.py)."""
from __future__ import annotations

import contextlib
import io
import math

from vf.replay import register, dec, outcome_of, show


def _record_choice_calls(text, fields):
    """Runs the real evaluator with the module-level name `deterministic_choice` (which the
    generated code resolves at call time) temporarily bound to a recorder."""
    import pyab_experiment.experiment_evaluator as ee
    calls = []
    real = ee.deterministic_choice

    def recorder(input_id, population, weights=None, *, cum_weights=None):
        calls.append({"key": input_id, "population": list(population),
                      "weights": None if weights is None else list(weights)})
        return real(input_id, population, weights, cum_weights=cum_weights)
    ev = ee.ExperimentEvaluator(text)
    ee.deterministic_choice = recorder
    try:
        o = outcome_of(lambda: ev(**fields))
    finally:
        ee.deterministic_choice = real
    return o, calls


@register("proba")
def replay_proba(p):
    """deterministic_proba(key) must equal top32(MD5(utf8(key)))/2^32."""
    from pyab_experiment.binning.binning import deterministic_proba
    from vf.ref.scheme import py_position_k
    key = dec(p["key"])
    o = outcome_of(lambda: deterministic_proba(key))
    want = py_position_k(key) / 2 ** 32
    ok = o[0] == "value" and isinstance(o[1], float) and o[1] == want
    return {"reproduced": not ok, "expected": "%r (top 32 bits of MD5(UTF-8(key)) / 2^32)" % want,
            "observed": show(o)}


@register("key")
def replay_key(p):
    """The key handed to the choice function must be salt + str(splitter values in
    alphabetical order of field name); and the assignment must be the scheme's."""
    from vf.ref.scheme import py_key, py_position_k, py_select
    fields = {k: dec(v) for k, v in p["fields"].items()}
    want_key = py_key(p["salt"], p["splitters"], fields)
    o, calls = _record_choice_calls(p["text"], fields)
    if not calls:
        return {"reproduced": p.get("expect_choice", True), "expected": "choice on key %r" % want_key,
                "observed": "no choice call; " + show(o)}
    got = calls[0]["key"]
    res = {"expected": "key %r" % want_key, "observed": "key %r; %s" % (got, show(o))}
    res["reproduced"] = (got != want_key) or len(calls) != 1
    if o[0] == "value" and calls[0]["weights"]:
        try:
            exp_group = calls[0]["population"][py_select(py_position_k(want_key), calls[0]["weights"])]
            res["scheme_assignment"] = repr(exp_group)
            res["assignment_differs"] = (exp_group != o[1])
        except Exception as e:  # informational only
            res["scheme_assignment"] = "n/a (%s)" % type(e).__name__
    return res


@register("total")
def replay_total(p):
    """Evaluation must return a group (any exception reproduces the violation)."""
    from pyab_experiment.experiment_evaluator import ExperimentEvaluator
    fields = {k: dec(v) for k, v in p["fields"].items()}
    o = outcome_of(lambda: ExperimentEvaluator(p["text"])(**fields))
    allowed = p.get("allowed_errors", [])
    ok = o[0] == "value" or (o[0] == "raise" and o[1] in allowed)
    return {"reproduced": not ok, "expected": "a group is returned", "observed": show(o)}


@register("pair_equal")
def replay_pair_equal(p):
    """Two (text, fields) evaluations must give the same outcome (group or error class)."""
    from pyab_experiment.experiment_evaluator import ExperimentEvaluator
    a, b = p["a"], p["b"]
    fa = {k: dec(v) for k, v in a["fields"].items()}
    fb = {k: dec(v) for k, v in b["fields"].items()}
    oa, ca = _record_choice_calls(a["text"], fa)
    ob, cb = _record_choice_calls(b["text"], fb)
    same = (oa[0] == ob[0]) and ((oa[0] == "value" and oa[1] == ob[1] and type(oa[1]) is type(ob[1])) or
                                 (oa[0] == "raise" and oa[1] == ob[1]))
    keys_same = [c["key"] for c in ca] == [c["key"] for c in cb]
    return {"reproduced": (not same) or (not keys_same),
            "expected": "identical outcome and identical hashed key",
            "observed": "A: %s key=%r | B: %s key=%r" % (show(oa), [c["key"] for c in ca], show(ob),
                                                        [c["key"] for c in cb])}


@register("pair_differ")
def replay_pair_differ(p):
    """Two evaluations must hash different keys (sat-expected twin)."""
    a, b = p["a"], p["b"]
    fa = {k: dec(v) for k, v in a["fields"].items()}
    fb = {k: dec(v) for k, v in b["fields"].items()}
    oa, ca = _record_choice_calls(a["text"], fa)
    ob, cb = _record_choice_calls(b["text"], fb)
    differ = [c["key"] for c in ca] != [c["key"] for c in cb]
    return {"reproduced": not differ, "expected": "different hashed keys",
            "observed": "A key=%r | B key=%r" % ([c["key"] for c in ca], [c["key"] for c in cb])}


@register("choice")
def replay_choice(p):
    """deterministic_choice(...) against an expected value / exception class / index."""
    from pyab_experiment.binning import binning
    args = [dec(a) for a in p.get("args", [])]
    kwargs = {k: dec(v) for k, v in p.get("kwargs", {}).items()}
    k = p.get("position_k")
    real_proba = binning.deterministic_proba
    if k is not None:
        # substitute the hash position: the documented observation point of C03/C16
        binning.deterministic_proba = lambda s, _k=k: _k / 0x100000000
    try:
        o = outcome_of(lambda: binning.deterministic_choice(*args, **kwargs))
    finally:
        binning.deterministic_proba = real_proba
    exp = p["expected"]
    if "index" in exp:
        pop = args[1] if len(args) > 1 else kwargs["population"]
        want = pop[exp["index"]]
        ok = o[0] == "value" and o[1] == want
        return {"reproduced": not ok, "expected": "population[%d] = %r" % (exp["index"], want), "observed": show(o)}
    if "index_in" in exp:
        pop = args[1] if len(args) > 1 else kwargs["population"]
        ok = o[0] == "value" and any(o[1] == pop[i] for i in exp["index_in"])
        return {"reproduced": not ok, "expected": "population index in %s" % exp["index_in"], "observed": show(o)}
    if "raises" in exp:
        ok = o[0] == "raise" and o[1] in exp["raises"]
        return {"reproduced": not ok, "expected": "raises %s" % exp["raises"], "observed": show(o)}
    if "not_raises" in exp:
        return {"reproduced": o[0] != "value", "expected": "returns an element", "observed": show(o)}
    raise ValueError("bad expected")


@register("aligned_lists")
def replay_aligned_lists(p):
    """The population / weights lists handed to the choice function must be the declared
    groups and weights, position by position (value and type)."""
    fields = {k: dec(v) for k, v in p["fields"].items()}
    o, calls = _record_choice_calls(p["text"], fields)
    want_pop, want_w = dec(p["population"]), dec(p["weights"])
    if not calls:
        return {"reproduced": True, "expected": "choice over %r" % (want_pop,), "observed": "no choice; " + show(o)}
    pop, w = calls[0]["population"], calls[0]["weights"]
    ok = (len(pop) == len(want_pop) and all(type(a) is type(b) and a == b for a, b in zip(pop, want_pop)) and
          w is not None and len(w) == len(want_w) and all(a == b for a, b in zip(w, want_w)))
    return {"reproduced": not ok, "expected": "population %r weights %r" % (want_pop, want_w),
            "observed": "population %r weights %r" % (pop, w)}


@register("program_position")
def replay_program_position(p):
    """the compiled experiment at a given hash position (deterministic_proba substituted: the documented observation
    point of C03) must return one of the labels the declared weights allow there"""
    from pyab_experiment.experiment_evaluator import ExperimentEvaluator
    fields = {k: dec(v) for k, v in p["fields"].items()}
    allowed = dec(p["allowed"])
    ev = ExperimentEvaluator(p["text"])
    o = _with_position(p["position_k"], lambda: outcome_of(lambda: ev(**fields)))
    ok = o[0] == "value" and any(type(o[1]) is type(a) and o[1] == a for a in allowed)
    return {"reproduced": not ok, "expected": "one of %r at hash position %d" % (allowed, p["position_k"]), "observed": show(o)}


@register("monotone")
def replay_monotone(p):
    """A unit at hash position k must not move to a later group when no leading cumulative
    share decreases."""
    from pyab_experiment.binning import binning
    wa, wb, k = dec(p["weights_a"]), dec(p["weights_b"]), p["position_k"]
    real = binning.deterministic_proba
    binning.deterministic_proba = lambda s, _k=k: _k / 0x100000000
    try:
        n = len(wa)
        oa = outcome_of(lambda: binning.deterministic_choice("u", list(range(n)), list(wa)))
        ob = outcome_of(lambda: binning.deterministic_choice("u", list(range(n)), list(wb)))
    finally:
        binning.deterministic_proba = real
    bad = oa[0] == "value" and ob[0] == "value" and ob[1] > oa[1]
    return {"reproduced": bad, "expected": "group index under the second vector <= index under the first",
            "observed": "first: %s, second: %s" % (show(oa), show(ob))}


@register("rehash")
def replay_rehash(p):
    """The string hashed by deterministic_choice must be exactly its input_id (one position
    per unit, whatever the weights)."""
    from pyab_experiment.binning import binning
    seen = []
    real = binning.deterministic_proba

    def rec(s):
        seen.append(s)
        return real(s)
    binning.deterministic_proba = rec
    try:
        outs = []
        for w in ([1.0, 2.0, 3.0], [3.0, 2.0, 1.0], None):
            outs.append(outcome_of(lambda: binning.deterministic_choice("unit-7", ["A", "B", "C"], w)))
    finally:
        binning.deterministic_proba = real
    bad = any(s != "unit-7" for s in seen) or len(seen) != 3
    return {"reproduced": bad, "expected": "hashed strings ['unit-7']*3", "observed": "hashed %r" % (seen,)}


def _with_position(k, fn):
    from pyab_experiment.binning import binning
    real = binning.deterministic_proba
    if k is not None:
        binning.deterministic_proba = lambda s, _k=k: _k / 0x100000000
    try:
        return fn()
    finally:
        binning.deterministic_proba = real


@register("choice_pair")
def replay_choice_pair(p):
    """Two call forms of deterministic_choice must select the same item at hash position k."""
    from pyab_experiment.binning import binning

    def call(c):
        args = [dec(a) for a in c["args"]]
        kwargs = {k: dec(v) for k, v in c["kwargs"].items()}
        return outcome_of(lambda: binning.deterministic_choice(*args, **kwargs))
    oa = _with_position(p["position_k"], lambda: call(p["a"]))
    ob = _with_position(p["position_k"], lambda: call(p["b"]))
    same = oa[0] == ob[0] and oa[1] == ob[1]
    return {"reproduced": not same, "expected": "same item from both call forms", "observed": "%s | %s" % (show(oa), show(ob))}


@register("choice_mutation")
def replay_choice_mutation(p):
    import copy
    from pyab_experiment.binning import binning
    args = [dec(a) for a in p["args"]]
    kwargs = {k: dec(v) for k, v in p["kwargs"].items()}
    before = copy.deepcopy((args, kwargs))
    o = outcome_of(lambda: binning.deterministic_choice(*args, **kwargs))
    changed = before != (args, kwargs)
    return {"reproduced": changed, "expected": "arguments unchanged", "observed": "after the call: %r %r; %s" % (args, kwargs, show(o))}


@register("choice_scheme")
def replay_choice_scheme(p):
    """deterministic_choice(id, population, ...) against the published scheme: position = first 32 bits of
    MD5(UTF-8(id)), item = the one whose running-total interval holds position/2^32 * total (one grid point of
    tolerance at a boundary); 25 calls, all inside the allowed set"""
    from pyab_experiment.binning import binning
    from vf.ref import scheme
    args = [dec(a) for a in p["args"]]
    kwargs = {k: dec(v) for k, v in p["kwargs"].items()}
    uid, pop = args[0], list(args[1])
    if len(args) > 2:
        weights = list(args[2])
    elif kwargs.get("weights") is not None:
        weights = list(kwargs["weights"])
    elif kwargs.get("cum_weights") is not None:
        cw = list(kwargs["cum_weights"])
        weights = [cw[0]] + [b - a for a, b in zip(cw, cw[1:])]
    else:
        weights = [1] * len(pop)
    seen = []
    bad = []
    varied = False
    # the solver's id first, then a few ids derived from it (a scheme that differs from the published one agrees with it
    # on a single id with probability 1/len(population))
    ids = [uid] + ([uid + "#%d" % i for i in range(24)] if isinstance(uid, str) else [])
    for u in ids:
        k = scheme.py_position_k(u)
        allowed = {scheme.py_select(kk, weights) for kk in (max(k - 1, 0), k, min(k + 1, 2 ** 32 - 1))}
        here = []
        for _ in range(8 if u is not uid else 25):
            o = outcome_of(lambda: binning.deterministic_choice(u, *args[1:], **kwargs))
            if show(o) not in here:
                here.append(show(o))
            if not (o[0] == "value" and any(o[1] == pop[i] for i in allowed)):
                bad.append("id %r: %s, scheme allows index %s" % (u, show(o), sorted(allowed)))
        varied = varied or len(here) > 1
        seen += [x for x in here if x not in seen]
        if bad or varied:
            break
    return {"reproduced": bool(bad) or varied, "expected": "the item the published scheme selects, on every call",
            "observed": (bad[0] if bad else "results %s" % seen[:4])}


@register("choice_repeat")
def replay_choice_repeat(p):
    """with an id the choice is a function of its arguments: 200 calls, one result"""
    from pyab_experiment.binning import binning
    args = [dec(a) for a in p["args"]]
    kwargs = {k: dec(v) for k, v in p["kwargs"].items()}
    seen = []
    for _ in range(200):
        o = show(outcome_of(lambda: binning.deterministic_choice(*args, **kwargs)))
        if o not in seen:
            seen.append(o)
    return {"reproduced": len(seen) > 1, "expected": "one result", "observed": "%d different results: %s" % (len(seen), seen[:4])}


@register("random_forward")
def replay_random_forward(p):
    """input_id=None must behave as random.choices(population, weights, cum_weights=..., k=1)[0]"""
    import random
    from pyab_experiment.binning import binning
    pop, w = ["a", "b", "c", "d"], [1.0, 0.0, 2.0, 0.0]
    bad = []
    for seed in range(50):
        random.seed(seed)
        got = outcome_of(lambda: binning.deterministic_choice(None, pop, w))
        random.seed(seed)
        want = random.choices(pop, w, k=1)[0]
        if not (got[0] == "value" and got[1] == want):
            bad.append((seed, show(got), want))
    return {"reproduced": bool(bad), "expected": "same draws as random.choices under the same seed", "observed": repr(bad[:3])}


@register("random_zero")
def replay_random_zero(p):
    import random
    from pyab_experiment.binning import binning
    pop, w = ["a", "b", "c", "d"], [1.0, 0.0, 2.0, 0.0]
    bad = []
    for seed in range(2000):
        random.seed(seed)
        got = outcome_of(lambda: binning.deterministic_choice(None, pop, w))
        if got[0] != "value" or got[1] in ("b", "d"):
            bad.append((seed, show(got)))
    return {"reproduced": bool(bad), "expected": "never a zero-weight item", "observed": repr(bad[:3])}


@register("ci")
def replay_ci(p):
    """Concrete re-check of the interval helper at one point (binary64): well-formed, equals the
    textbook formula with the module's own z, narrows with n, widens with confidence."""
    import math
    from pyab_experiment.utils import stats
    n, pp, conf, method = p["n"], p["p"], p["confidence"], p["method"]
    for alt in p.get("search_confidences") or []:
        # the solver's z may not be reachable exactly through probit: the same (n, p) is tried on a ladder of confidences
        # (and of sample sizes) and the first ill-formed interval is reported
        for n_alt in (n, 1, 10 ** 5, 10 ** 9):
            oa = outcome_of(lambda: stats.confidence_interval(n_alt, pp, alt, method))
            if oa[0] != "value":
                return {"reproduced": True, "expected": "an interval", "observed": "n=%r p=%r confidence=%r: %s" % (n_alt, pp, alt, show(oa))}
            la, ha = oa[1]
            if isinstance(la, complex) or isinstance(ha, complex) or la != la or ha != ha or not (la <= ha):
                return {"reproduced": True, "expected": "a real interval with lower <= upper",
                        "observed": "n=%r p=%r confidence=%r: %r" % (n_alt, pp, alt, (la, ha))}
    o = outcome_of(lambda: stats.confidence_interval(n, pp, conf, method))
    if o[0] != "value":
        return {"reproduced": True, "expected": "an interval", "observed": show(o)}
    lo, hi = o[1]
    problems = []
    if isinstance(lo, complex) or isinstance(hi, complex) or not (lo <= hi):
        problems.append("not lower <= upper: %r" % ((lo, hi),))
    else:
        z = stats.probit((1 - conf) / 2)
        if method.lower() == "agresti-coull":
            n1 = n + z * z
            p1 = (pp * n + z * z / 2) / n1
            half = z * math.sqrt(max(p1 * (1 - p1) / n1, 0.0))
            want = (p1 - half, p1 + half)
        else:
            half = z * math.sqrt(max(pp * (1 - pp) / n, 0.0))
            want = (pp - half, pp + half)
        tol = 1e-9 * max(1.0, abs(want[0]), abs(want[1]))
        if abs(lo - want[0]) > tol or abs(hi - want[1]) > tol:
            problems.append("differs from the textbook formula %r" % (want,))
        lo2, hi2 = stats.confidence_interval(n + 1, pp, conf, method)
        if (hi2 - lo2) > (hi - lo) * (1 + 1e-12) + 1e-15:
            problems.append("wider at n+1: %r" % ((lo2, hi2),))
        c2 = conf + (1 - conf) / 2
        lo3, hi3 = stats.confidence_interval(n, pp, c2, method)
        if (hi3 - lo3) < (hi - lo) * (1 - 1e-12) - 1e-15:
            problems.append("narrower at higher confidence %r: %r" % (c2, (lo3, hi3)))
    return {"reproduced": bool(problems), "expected": "well-formed textbook interval", "observed": "%r; %s" % ((lo, hi), problems)}


@register("probit")
def replay_probit(p):
    import math
    from pyab_experiment.utils import stats
    a = p["alpha"]
    o = outcome_of(lambda: stats.probit(a))
    o2 = outcome_of(lambda: stats.probit(1 - a))
    bad = o[0] != "value" or o2[0] != "value"
    if not bad:
        want = math.sqrt(math.pi / 8) * abs(math.log(a / (1 - a)))
        bad = o[1] < 0 or abs(o[1] - o2[1]) > 1e-9 * max(1.0, abs(o[1])) or abs(o[1] - want) > 1e-9 * max(1.0, want)
    return {"reproduced": bad, "expected": "probit(a) = probit(1-a) = sqrt(pi/8)|logit a| >= 0", "observed": "%s / %s" % (show(o), show(o2))}


@register("probit_mono")
def replay_probit_mono(p):
    from pyab_experiment.utils import stats
    a, b = p["alpha"], p["alpha_b"]
    za, zb = stats.probit(a), stats.probit(b)
    return {"reproduced": (b <= a <= 0.5) and zb < za, "expected": "probit(%r) >= probit(%r)" % (b, a), "observed": "%r vs %r" % (zb, za)}


@register("ci_method")
def replay_ci_method(p):
    from pyab_experiment.utils import stats
    o = outcome_of(lambda: stats.confidence_interval(10, 0.5, 0.95, p["method"]))
    if p.get("expect_ok"):
        return {"reproduced": o[0] != "value", "expected": "an interval", "observed": show(o)}
    ok = o[0] == "raise" and o[1] == "NotImplementedError"
    return {"reproduced": not ok, "expected": "NotImplementedError", "observed": show(o)}


@register("lifecycle")
def replay_lifecycle(p):
    """Differential run of operation sequences on real evaluators against the model
    'each evaluator behaves like a fresh one built from the last text it accepted'."""
    from pyab_experiment.experiment_evaluator import ExperimentEvaluator
    A = 'def exp_a { splitters: uid return "a1" weighted 1, "a2" weighted 1, "a3" weighted 1 }'
    B = 'def exp_b { splitters: uid return "b1" weighted 1, "b2" weighted 3 }'
    A2 = 'def exp_a { splitters: uid return "c1" weighted 5, "c2" weighted 1 }'
    BAD_LEX = 'def exp_c { splitters: uid return "x" weighted ; 1 }'
    BAD_SYN = 'def exp_d { splitters uid return "x" weighted 1 }'
    BAD_SEM = 'def exp_e { splitters: uid if uid == 1 { return "x" weighted 1 } else { } }'
    ids = ["u%d" % i for i in range(40)]

    def fresh_results(text):
        ev = ExperimentEvaluator(text)
        return [ev(uid=i) for i in ids]

    def is_valid(text):
        try:
            import contextlib, io
            with contextlib.redirect_stdout(io.StringIO()), contextlib.redirect_stderr(io.StringIO()):
                ExperimentEvaluator(text)
            return True
        except Exception:
            return False
    seqs = {
        "repeat": [("new", 0, A), ("recompile", 0, BAD_SYN), ("recompile", 0, BAD_SYN), ("recompile", 0, BAD_SYN), ("call", 0)],
        "atomic": [("new", 0, A), ("recompile", 0, BAD_LEX), ("call", 0), ("recompile", 0, BAD_SEM), ("call", 0)],
        "noop": [("new", 0, A), ("recompile", 0, A), ("call", 0), ("recompile", 0, B), ("recompile", 0, B), ("call", 0)],
        "ok": [("new", 0, A), ("recompile", 0, B), ("call", 0), ("recompile", 0, A2), ("call", 0), ("recompile", 0, A), ("call", 0)],
        "stale": [("new", 0, A), ("recompile", 0, A2), ("call", 0), ("recompile", 0, A), ("call", 0)],
        "isolation": [("new", 0, A), ("new", 1, B), ("call", 0), ("call", 1), ("recompile", 1, A2), ("call", 0), ("call", 1),
                      ("recompile", 0, BAD_SYN), ("call", 1), ("call", 0)],
        "swallow": [("new", 0, BAD_SYN)],
        "init": [("new", 0, BAD_LEX)],
        "call": [("new", 0, A), ("call", 0), ("call", 0)],
    }
    order = [p.get("scenario")] + [k for k in seqs if k != p.get("scenario")]
    problems = []
    for name in order:
        if name not in seqs:
            continue
        evs, accepted = {}, {}
        for op in seqs[name]:
            kind, who = op[0], op[1]
            if kind == "new":
                text = op[2]
                o = outcome_of(lambda: ExperimentEvaluator(text))
                valid = is_valid(text) if False else None
                if o[0] == "value":
                    evs[who] = o[1]
                    accepted[who] = text
                    if text in (BAD_LEX, BAD_SYN, BAD_SEM):
                        problems.append("%s: construction from invalid text succeeded" % name)
                else:
                    if text not in (BAD_LEX, BAD_SYN, BAD_SEM):
                        problems.append("%s: construction from valid text raised %s" % (name, o[1]))
            elif kind == "recompile":
                text = op[2]
                if who not in evs:
                    continue
                o = outcome_of(lambda: evs[who].recompile(text))
                if text in (BAD_LEX, BAD_SYN, BAD_SEM):
                    if o[0] != "raise":
                        problems.append("%s: recompile(invalid text) returned without raising" % name)
                else:
                    if o[0] == "raise":
                        problems.append("%s: recompile(valid text) raised %s" % (name, o[1]))
                    else:
                        accepted[who] = text
            else:
                if who not in evs:
                    continue
                got = [outcome_of(lambda i=i: evs[who](uid=i))[1] for i in ids]
                want = fresh_results(accepted[who])
                if got != want:
                    problems.append("%s: evaluator %d does not behave like a fresh evaluator of its last accepted text" % (name, who))
        if problems:
            break
    return {"reproduced": bool(problems), "expected": "every evaluator behaves like a fresh one built from the last text it accepted; "
            "invalid text always raises", "observed": "; ".join(problems[:3]) or "all sequences conform"}


@register("module_equiv")
def replay_module_equiv(p):
    """exec(generate_code(text, expose)) in a fresh namespace and call the function named after the
    experiment: same group / same error class as ExperimentEvaluator(text)."""
    from pyab_experiment.experiment_evaluator import ExperimentEvaluator
    from pyab_experiment.utils.wraper_functions import generate_code, parse_source
    fields = {k: dec(v) for k, v in p["fields"].items()}
    ev_o = outcome_of(lambda: ExperimentEvaluator(p["text"])(**fields))

    def run_module():
        code = generate_code(p["text"], p["expose"])
        ns = {}
        exec(compile(code, "<generated>", "exec"), ns)
        name = parse_source(p["text"]).id
        return ns[name](**fields)
    mod_o = outcome_of(run_module)
    same = ev_o[0] == mod_o[0] and ((ev_o[0] == "value" and ev_o[1] == mod_o[1] and type(ev_o[1]) is type(mod_o[1])) or
                                    (ev_o[0] == "raise" and ev_o[1] == mod_o[1]))
    return {"reproduced": not same, "expected": "module: same outcome as the evaluator (%s)" % show(ev_o), "observed": show(mod_o)}


_CHILD = r'''
import json, sys, os, contextlib, io
sys.path.insert(0, os.environ["PYAB_REPO"] + "/src")
from pyab_experiment.experiment_evaluator import ExperimentEvaluator
sys.path.insert(0, os.environ["VERIF_DIR"])
from vf.replay import dec
p = json.load(sys.stdin)
rows = [{k: dec(v) for k, v in r.items()} for r in p["rows"]]
out = []
with contextlib.redirect_stdout(io.StringIO()):
    e1 = ExperimentEvaluator(p["text"]); e2 = ExperimentEvaluator(p["text"])
    def call(e, r):
        try:
            return repr(e(**r))
        except Exception as ex:
            return "raise:" + type(ex).__name__
    first = [call(e1, r) for r in rows]
    again = [call(e1, r) for r in reversed(rows)][::-1]
    other = [call(e2, r) for r in rows]
    e1.recompile(p["text"] + " "); e1.recompile(p["text"])
    after = [call(e1, r) for r in rows]
print(json.dumps({"first": first, "again": again, "other": other, "after": after}))
'''


@register("process_independence")
def replay_process_independence(p):
    """Same source and inputs in child interpreters with different PYTHONHASHSEED / locale / cwd,
    on repeated calls, on a second instance and after a recompile cycle: identical assignments."""
    import json
    import os
    import subprocess
    import sys
    import tempfile
    verif = os.path.dirname(os.path.dirname(os.path.abspath(__file__)))
    repo = os.environ.get("PYAB_REPO", "/repo")
    rows = p["rows"] or [{"uid": {"s": [117, 48 + i % 10, 48 + i // 10]}} for i in range(24)]
    payload = json.dumps({"text": p["text"], "rows": rows})
    outs = []
    envs = [("0", "C", None), ("1", "C.UTF-8", "/"), ("2", "C", None), ("12345", "POSIX", "/tmp"), ("random", "C", None),
            ("3", "C", None, {"PYTHONUTF8": "0", "PYTHONCOERCECLOCALE": "0"}), ("4", "C", None, {"PYTHONUTF8": "1"}),
            ("5", "POSIX", None, {"PYTHONUTF8": "0", "PYTHONCOERCECLOCALE": "0", "PYTHONIOENCODING": "latin-1"})]
    for spec in envs:
        seed, lang, cwd = spec[:3]
        env = dict(os.environ, PYTHONHASHSEED=seed, LANG=lang, LC_ALL=lang, PYAB_REPO=repo, VERIF_DIR=verif)
        env.pop("PYTHONUTF8", None)
        env.pop("PYTHONCOERCECLOCALE", None)
        env.update(spec[3] if len(spec) > 3 else {})
        r = subprocess.run([sys.executable, "-c", _CHILD], input=payload, capture_output=True, text=True, env=env,
                           cwd=cwd or verif, timeout=120)
        line = [l for l in r.stdout.splitlines() if l.startswith("{")]
        outs.append(json.loads(line[-1]) if line else {"error": r.stderr[-300:]})
    problems = []
    base = outs[0]
    if "error" in base:
        problems.append("child failed: %s" % base["error"])
    else:
        for k in ("again", "other", "after"):
            if base[k] != base["first"]:
                problems.append("within one process: '%s' transcript differs from the first" % k)
        for i, o in enumerate(outs[1:], 1):
            if o.get("first") != base["first"]:
                problems.append("process with PYTHONHASHSEED=%s LANG=%s differs from the first process" % envs[i][:2])
                break
    return {"reproduced": bool(problems), "expected": "identical transcripts", "observed": "; ".join(problems[:3]) or "identical"}


@register("lex_first")
def replay_lex_first(p):
    """First emitted token (or error) of the real lexer vs the reference tokenizer on the same text."""
    from pyab_experiment.language.lexer import ExperimentLexer
    from vf.ref import tokens as ref
    text = dec(p["text"])

    def impl_first():
        import contextlib, io
        buf = io.StringIO()
        with contextlib.redirect_stdout(buf), contextlib.redirect_stderr(buf):
            lx = ExperimentLexer()
            try:
                for tok in lx.tokenize(text):
                    return ("token", tok.type, tok.value, buf.getvalue())
            except Exception as e:
                return ("error", type(e).__name__, None, buf.getvalue())
            if type(lx) is not ExperimentLexer:
                return ("end-inside-comment", None, None, buf.getvalue())
            return ("end", None, None, buf.getvalue())

    def ref_first():
        try:
            toks = ref.py_tokenize(text)
        except ref.RefLexError as e:
            # tokens before the error position?
            before = getattr(e, "tokens", [])
            if before:
                return ("token", before[0][0], before[0][2])
            return ("error", None, None)
        if toks:
            return ("token", toks[0][0], toks[0][2])
        return ("end", None, None)
    i, r = impl_first(), ref_first()
    if r[0] == "token":
        same = i[0] == "token" and i[1] == r[1] and i[2] == r[2] and type(i[2]) is type(r[2])
    elif r[0] == "error":
        same = i[0] == "error"
    else:
        same = i[0] == "end"
    printed = (" (lexer printed %r)" % i[3][:60]) if i[3] else ""
    return {"reproduced": not same, "expected": "reference: %r" % (r,), "observed": "implementation: %r%s" % (i[:3], printed)}


@register("ast_equal")
def replay_ast_equal(p):
    """Two texts that differ only in trivia must parse to equal ASTs (and both must parse)."""
    from pyab_experiment.utils.wraper_functions import parse_source
    a = outcome_of(lambda: parse_source(dec(p["a"])))
    b = outcome_of(lambda: parse_source(dec(p["b"])))
    same = a[0] == "value" and b[0] == "value" and a[1] is not None and a[1] == b[1]
    return {"reproduced": not same, "expected": "equal ASTs", "observed": "%s | %s" % (show(a)[:150], show(b)[:150])}


@register("inert")
def replay_inert(p):
    """The code generated for `text` must be identical, up to constants, to the code generated for the
    harmless variant, and compiling + evaluating it must not call a sentinel planted in builtins."""
    import ast
    import builtins
    from pyab_experiment.utils.wraper_functions import generate_code
    from pyab_experiment.experiment_evaluator import ExperimentEvaluator

    def masked(code):
        tree = ast.parse(code)
        for node in ast.walk(tree):
            if isinstance(node, ast.Constant):
                node.value = "S" if isinstance(node.value, str) else 0
        return ast.dump(tree)
    problems = []
    for expose in (False, True):
        a = outcome_of(lambda: generate_code(p["text"], expose))
        b = outcome_of(lambda: generate_code(p["harmless"], expose))
        if a[0] != "value":
            problems.append("code generation fails: %s" % show(a))
            break
        if b[0] == "value" and masked(a[1]) != masked(b[1]):
            problems.append("generated code structure depends on the literal (expose=%s)" % expose)
            break
    calls = []
    real_print = builtins.print
    builtins.print = lambda *a, **k: calls.append(a)
    try:
        o = outcome_of(lambda: ExperimentEvaluator(p["text"])(uid="u1", fld="zz"))
    finally:
        builtins.print = real_print
    if calls:
        problems.append("evaluation called print%r" % (calls[0],))
    if o[0] == "raise" and o[1] not in ("ExperimentConditionalFailedError",):
        problems.append("compiling/evaluating raised %s" % o[1])
    return {"reproduced": bool(problems), "expected": "literal is inert data", "observed": "; ".join(problems) or show(o)}


@register("call_history")
def replay_call_history(p):
    """Each call of a sequence on ONE evaluator must return what a fresh evaluator returns for the same fields."""
    from pyab_experiment.experiment_evaluator import ExperimentEvaluator
    calls = [{k: dec(v) for k, v in c.items()} for c in p["calls"]]
    shared = ExperimentEvaluator(p["text"])
    problems = []
    for order in (calls, list(reversed(calls))):
        shared = ExperimentEvaluator(p["text"])
        for c in order:
            got = outcome_of(lambda: shared(**c))
            want = outcome_of(lambda: ExperimentEvaluator(p["text"])(**c))
            if got[:2] != want[:2]:
                problems.append("after earlier calls, %r returns %s; a fresh evaluator returns %s" % (c, show(got), show(want)))
    return {"reproduced": bool(problems), "expected": "no call changes the result of a later call",
            "observed": "; ".join(problems[:2]) or "all calls agree with fresh evaluators"}


@register("lifecycle_search")
def replay_lifecycle_search(p):
    """Bounded search: every sequence new(T0); op1..op4 with op in recompile(valid/invalid texts) on one evaluator next
    to a bystander; after each step the evaluator must behave like a fresh one built from its last accepted text and an
    invalid text must raise every time."""
    import contextlib
    import io
    import itertools
    from pyab_experiment.experiment_evaluator import ExperimentEvaluator
    A = 'def exp_a { splitters: uid return "a1" weighted 1, "a2" weighted 1, "a3" weighted 1 }'
    A2 = 'def exp_a { splitters: uid return "c1" weighted 5, "c2" weighted 1 }'
    B = 'def exp_b { splitters: uid return "b1" weighted 1, "b2" weighted 3 }'
    BAD_SYN = 'def exp_d { splitters uid return "x" weighted 1 }'
    BAD_LEX = 'def exp_c { splitters: uid return "x" weighted ; 1 }'
    valid = {"A": A, "A2": A2, "B": B}
    invalid = {"BAD_SYN": BAD_SYN, "BAD_LEX": BAD_LEX}
    texts = dict(valid, **invalid)
    ids = ["u%d" % i for i in range(24)]
    fresh = {}
    for k, t in valid.items():
        ev = ExperimentEvaluator(t)
        fresh[k] = [ev(uid=i) for i in ids]
    max_len = int(p.get("max_len", 4))
    problems = []
    quiet = lambda: contextlib.redirect_stdout(io.StringIO())
    for start in valid:
        for n in range(1, max_len + 1):
            for seq in itertools.product(texts, repeat=n):
                with quiet():
                    ev = ExperimentEvaluator(valid[start])
                    by = ExperimentEvaluator(B)
                accepted = start
                trail = ["new(%s)" % start]
                bad = None
                for name in seq:
                    trail.append("recompile(%s)" % name)
                    try:
                        with quiet():
                            ev.recompile(texts[name])
                        if name in invalid:
                            bad = "recompile(%s) returned without raising" % name
                            break
                        accepted = name
                    except Exception:
                        if name in valid:
                            bad = "recompile(%s) raised on a valid text" % name
                            break
                    try:
                        got = [ev(uid=i) for i in ids]
                    except Exception as e:
                        got = "raised %s" % type(e).__name__
                    if got != fresh[accepted]:
                        bad = "behaves unlike a fresh evaluator of %s" % accepted
                        break
                    if [by(uid=i) for i in ids] != fresh["B"]:
                        bad = "a bystander evaluator changed"
                        break
                if bad:
                    problems.append(" -> ".join(trail) + ": " + bad)
                    break
            if problems:
                break
        if problems:
            break
    if not problems:
        # phase 2: two evaluators, operations on either (state shared between instances)
        ops = [(w, name) for w in (0, 1) for name in texts]
        for s0 in valid:
            for s1 in valid:
                for n in range(1, 4):
                    for seq in itertools.product(ops, repeat=n):
                        with quiet():
                            evs = [ExperimentEvaluator(valid[s0]), ExperimentEvaluator(valid[s1])]
                        acc = [s0, s1]
                        trail = ["new#0(%s)" % s0, "new#1(%s)" % s1]
                        bad = None
                        for who, name in seq:
                            trail.append("recompile#%d(%s)" % (who, name))
                            try:
                                with quiet():
                                    evs[who].recompile(texts[name])
                                if name in invalid:
                                    bad = "recompile(%s) returned without raising" % name
                                    break
                                acc[who] = name
                            except Exception:
                                if name in valid:
                                    bad = "recompile(%s) raised on a valid text" % name
                                    break
                            for j in (0, 1):
                                try:
                                    got = [evs[j](uid=i) for i in ids]
                                except Exception as e:
                                    got = "raised %s" % type(e).__name__
                                if got != fresh[acc[j]]:
                                    bad = "evaluator #%d behaves unlike a fresh evaluator of %s" % (j, acc[j])
                                    break
                            if bad:
                                break
                        if bad:
                            problems.append(" -> ".join(trail) + ": " + bad)
                            break
                    if problems:
                        break
                if problems:
                    break
            if problems:
                break
    if not problems:
        problems = _confusable_text_search()
    if not problems:
        problems = _vocabulary_name_search()
    return {"reproduced": bool(problems), "expected": "every history conforms to the model", "observed": problems[0] if problems else
            "no misbehaving history up to %d recompiles (one evaluator) / 3 operations on two evaluators / confusable-text "
            "round trips" % max_len}


def _vocabulary_name_search():
    """experiments NAMED like the identifiers the generated code itself resolves (harvested from the generator's output:
    map, str, partial, ...) compiled before / after ordinary ones on the same evaluator and next to a bystander: a namespace
    that survives from one compile to the next shows up here"""
    import contextlib
    import io
    from pyab_experiment.experiment_evaluator import ExperimentEvaluator
    try:
        from vf.props.C07 import generated_vocabulary
        names = generated_vocabulary()
    except Exception:
        names = ["map", "str", "partial", "deterministic_choice", "ExperimentConditionalFailedError", "kwargs", "join"]
    quiet = lambda: contextlib.redirect_stdout(io.StringIO())
    ids = ["u%d" % i for i in range(16)] + [1, 2.5, None]
    plain = {"P": 'def checkout { salt: "s" splitters: uid return "A" weighted 1, "B" weighted 1, "C" weighted 1 }',
             "Q": 'def other { splitters: uid if uid == 1 { return "x" weighted 1 } else { return "y" weighted 1, "z" weighted 2 } }'}
    named = {}
    for n in names:
        named["N:" + n] = 'def %s { if f == 1 { return "n1" weighted 1 } else { return "n2" weighted 1 } }' % n
        named["S:" + n] = 'def %s { splitters: uid return "m1" weighted 2, "m2" weighted 1 }' % n
    texts = dict(plain, **named)

    def behaviour(ev, key):
        out = []
        for i in ids:
            try:
                kw = {"uid": i}
                if key.startswith("N:"):
                    kw = {"f": 1 if i == 1 else 0}
                v = ev(**kw)
                out.append((type(v).__name__, repr(v)))
            except Exception as e:
                out.append(("raised", type(e).__name__))
        return out
    fresh = {}
    for k, t in texts.items():
        try:
            with quiet():
                ev = ExperimentEvaluator(t)
            fresh[k] = behaviour(ev, k)
            if k.startswith("N:") and any(x[1] in ("'n1'", "'n2'") for x in fresh[k]) is False:
                fresh[k] = fresh[k]
        except Exception:
            fresh[k] = None
    usable = [k for k in texts if fresh[k] is not None and not all(x[0] == "raised" for x in fresh[k])]
    for first in usable:
        for second in usable:
            if first == second or (first in plain and second in plain):
                continue
            try:
                with quiet():
                    ev = ExperimentEvaluator(texts[first])
                    by = ExperimentEvaluator(plain["P"])
                    ev.recompile(texts[second])
            except Exception as e:
                return ["new(%s) -> recompile(%s): raised %s although both texts compile on a fresh evaluator" % (first, second, type(e).__name__)]
            if behaviour(ev, second) != fresh[second]:
                return ["new(%s) -> recompile(%s): behaves unlike a fresh evaluator of %s" % (first, second, second)]
            if behaviour(by, "P") != fresh["P"]:
                return ["new(%s) -> recompile(%s): a bystander evaluator changed" % (first, second)]
    return []


def confusable_texts():
    """Texts that a lossy notion of 'same source' (whitespace folding, case folding, Unicode normalisation, comparing
    parsed trees or token values with ==, stripping comments by hand ...) would confuse although they are different
    programs, or one of them is not a program at all; plus a few that really are the same program."""
    def prog(name="exp_a", salt='salt: "wave 2"', body='return 0 weighted 9, 1 weighted 1', pre="", post="", nl="\n"):
        return nl.join(["%sdef %s {" % (pre, name), " " + salt, " splitters: uid", " " + body, "}%s" % post])
    out = {
        "base": prog(),
        "float-labels": prog(body='return 0.0 weighted 9, 1.0 weighted 1'),
        "float-weights": prog(body='return 0 weighted 9.0, 1 weighted 1.0'),
        "str-labels": prog(body='return "0" weighted 9, "1" weighted 1'),
        "neg-zero": prog(body='return -0 weighted 9, 1 weighted 1'),
        "neg-zero-float": prog(body='return -0.0 weighted 9, 1 weighted 1'),
        "lead-zero": prog(body='return 00 weighted 9, 01 weighted 1'),
        "salt-2sp": prog(salt='salt: "wave  2"'),
        "salt-tab": prog(salt='salt: "wave\t2"'),
        "salt-lead-sp": prog(salt='salt: " wave 2"'),
        "salt-trail-sp": prog(salt='salt: "wave 2 "'),
        "salt-case": prog(salt='salt: "Wave 2"'),
        "salt-single-quote": prog(salt="salt: 'wave 2'"),
        "salt-nfc": prog(salt='salt: "caf\u00e9"'),
        "salt-nfd": prog(salt='salt: "cafe\u0301"'),
        "salt-commented": prog(salt='// salt: "wave 2"'),
        "salt-comment-split": prog(salt='//\n salt: "wave 2"'),
        "salt-block-commented": prog(salt='/* salt: "wave 2" */'),
        "no-salt": prog(salt=''),
        "label-2sp": prog(body='return "Setting 1" weighted 9, "Setting  1" weighted 1'),
        "label-1sp": prog(body='return "Setting 1" weighted 9, "Setting 1" weighted 1'),
        "label-case": prog(body='return "a" weighted 9, "A" weighted 1'),
        "label-case2": prog(body='return "A" weighted 9, "a" weighted 1'),
        "swapped-weights": prog(body='return 0 weighted 1, 1 weighted 9'),
        "cond-int": prog(body='if uid in (1, 2) { return 0 weighted 1 } else { return 1 weighted 1 }'),
        "cond-float": prog(body='if uid in (1.5, 2) { return 0 weighted 1 } else { return 1 weighted 1 }'),
        "cond-str": prog(body='if uid in ("1", "2") { return 0 weighted 1 } else { return 1 weighted 1 }'),
        "crlf": prog(nl="\r\n"),
        "trailing-newline": prog(post="\n"),
        "leading-comment": prog(pre="// v2\n"),
        "other-name": prog(name="exp_b"),
        "name-case": prog(name="EXP_A"),
        # not programs
        "bad-newline-in-string": prog(salt='salt: "wave\n2"'),
        "bad-open-comment": prog(post="\n/* trailing"),
        "bad-trailing-token": prog(post=" x"),
        "bad-missing-colon": prog(salt='salt "wave 2"'),
        "bad-empty": "",
        "bad-blank": " \n",
        "bad-comment-eats-brace": prog()[:-1] + "// }",
    }
    return out


def _confusable_text_search():
    import contextlib
    import io
    from pyab_experiment.experiment_evaluator import ExperimentEvaluator
    texts = confusable_texts()
    ids = ["u%d" % i for i in range(24)] + [1, 2, 1.5, "1", 7]
    quiet = lambda: contextlib.redirect_stdout(io.StringIO())

    def show(v):
        return (type(v).__name__, repr(v))

    def behaviour(ev):
        out = []
        for i in ids:
            try:
                out.append(show(ev(uid=i)))
            except Exception as e:
                out.append(("raised", type(e).__name__))
        return out
    fresh = {}
    for k, t in texts.items():
        try:
            with quiet():
                fresh[k] = behaviour(ExperimentEvaluator(t))
        except Exception:
            fresh[k] = None
    valid = [k for k in texts if fresh[k] is not None]
    problems = []
    for x in valid:
        for y in texts:
            if y == x:
                continue
            with quiet():
                ev = ExperimentEvaluator(texts[x])
            accepted = x
            trail = ["new(%s)" % x]
            bad = None
            for name in (y, y, x, y):
                trail.append("recompile(%s)" % name)
                try:
                    with quiet():
                        ev.recompile(texts[name])
                    if fresh[name] is None:
                        bad = "recompile(%s) returned without raising although a fresh evaluator rejects that text" % name
                        break
                    accepted = name
                except Exception:
                    if fresh[name] is not None:
                        bad = "recompile(%s) raised on a text a fresh evaluator accepts" % name
                        break
                if behaviour(ev) != fresh[accepted]:
                    bad = "behaves unlike a fresh evaluator of %s (values compared with their types)" % accepted
                    break
            if bad:
                problems.append(" -> ".join(trail) + ": " + bad)
                return problems
    return problems


@register("same_print_history")
def replay_same_print_history(p):
    """After the given calls on ONE evaluator, a splitter value and its str() must still share a bucket."""
    from pyab_experiment.experiment_evaluator import ExperimentEvaluator
    calls = [{k: dec(v) for k, v in c.items()} for c in p["calls"]]
    problems = []
    for order in (calls, list(reversed(calls))):
        ev = ExperimentEvaluator(p["text"])
        for c in order:
            outcome_of(lambda: ev(**c))
        for c in order:
            twin = dict(c)
            for sname in p["splitters"]:
                twin[sname] = str(c[sname])
            a = outcome_of(lambda: ev(**c))
            b = outcome_of(lambda: ev(**twin))
            if a[:2] != b[:2]:
                problems.append("%r -> %s but its printed twin %r -> %s" % (
                    {k: c[k] for k in p["splitters"]}, show(a), {k: twin[k] for k in p["splitters"]}, show(b)))
    return {"reproduced": bool(problems), "expected": "values that print identically share a bucket",
            "observed": "; ".join(problems[:2]) or "all twins agree"}


TRICKY_KEYS = ["", "a", "abc", "user-42", "\x00", "\x7f", "\x80", "é", "é", "Zoë", "ñ", "한",
               "Å", "Ω", "क़", "ạ̇", "ﬁ", "Ａ", "ß", "İ", "ǆ", "ẛ̣", "a‍b", "‮abc",
               "﻿x", "🙂", "👨‍👩‍👧", "中文", " x ", "x\n", "\tx", "X", "Straße", "ı", "ſ", "K", "x" * 1000,
               "%s", "{0}", "1", "1.0", "True", "None", "-0.0", "1e5", "0x10", "\\", "'", '"', "\r\n", " ", " x "]


@register("proba_search")
def replay_proba_search(p):
    """deterministic_proba(key) == top32(MD5(utf8(key)))/2^32 on the witness key and on a list of tricky keys"""
    from pyab_experiment.binning.binning import deterministic_proba
    from vf.ref.scheme import py_position_k
    keys = [dec(p["key"])] + TRICKY_KEYS
    for L in p.get("lengths", []) or []:
        # keys around a length threshold found in the code: ASCII, two- and three-byte fills, a multi-byte tail, and a
        # pair differing only in the last character
        for n in sorted({max(L - 1, 1), L, L + 1, L + 2, L + 4097, 2 * L + 3}):
            if n > 1 << 23:
                continue
            keys += ["x" * n, "\u00e9" * n, "\u4e2d" * n, "x" * (n - 1) + "\u00e9", "x" * (n // 2) + "\u00fc" * (n - n // 2),
                     "\u00e9" * (n - 1) + "a", "\u00e9" * (n - 1) + "b"]
    bad = []
    for key in keys:
        o = outcome_of(lambda: deterministic_proba(key))
        want = py_position_k(key) / 2 ** 32
        if not (o[0] == "value" and isinstance(o[1], float) and o[1] == want):
            bad.append("key %s: %s, scheme %r" % (repr(key) if len(key) <= 40 else "%r...%r (%d chars)" % (key[:8], key[-4:], len(key)),
                                                   show(o), want))
            if len(bad) >= 3:
                break
    return {"reproduced": bool(bad), "expected": "top 32 bits of MD5(UTF-8(key)) / 2^32 for every key",
            "observed": "; ".join(bad[:3]) or "agrees on the witness and %d tricky keys" % len(TRICKY_KEYS)}



def glue_corpus():
    """(name, text, is_trivia_variant_of) -- texts at the seams of parse_source: odd line ends and blanks between tokens
    and inside literals, sentinels, text after the closing brace, look-alikes of comments, case, normal forms"""
    base = 'def e {\n salt: "S"\n splitters: uid\n if uid == "k" { return "A" weighted 1, "B" weighted 2 }\n else { return 7 weighted 1 }\n}'
    out = [("base", base, None)]
    seps = {"crlf": "\r\n", "cr": "\r", "vt": "\x0b", "ff": "\x0c", "fs": "\x1c", "gs": "\x1d", "rs": "\x1e", "us": "\x1f",
            "nel": "\x85", "nbsp": "\xa0", "ls": "\u2028", "ps": "\u2029", "tab": "\t", "em-space": "\u2003",
            "ideographic-space": "\u3000"}
    for n, c in seps.items():
        out.append(("sep-" + n, base.replace("\n", c), "base"))
    out.append(("lead-blank", " \n\t" + base, "base"))
    out.append(("trail-blank", base + " \n\n", "base"))
    out.append(("trail-comment", base + "\n// the end", "base"))
    out.append(("trail-comment-crlf", base + "\r\n// the end\r\n", "base"))
    out.append(("line-comments", base.replace("\n", " // note\n"), "base"))
    out.append(("line-comment-backslash", base.replace("\n", " // note \\\n", 1), "base"))
    out.append(("block-comments", base.replace("\n", " /* note */\n"), "base"))
    out.append(("block-comment-multiline", base.replace("\n", "\n/* a\n * b\n */\n", 1), "base"))
    out.append(("comment-with-quote", base.replace("\n", " // it's \"quoted\n", 1), "base"))
    out.append(("comment-with-open", base.replace("\n", " // see /* above\n", 1), "base"))
    out.append(("comment-star-slash", base.replace("\n", " /* a // b */\n", 1), "base"))
    # a // comment runs to the next \n whatever it contains: other line-end look-alikes inside it do not end it
    for n, c in (("cr", "\r"), ("ff", "\x0c"), ("vt", "\x0b"), ("nel", "\x85"), ("ls", "\u2028"), ("fs", "\x1c")):
        out.append(("line-comment-%s-then-code" % n, base.replace("\n", " // note%s salt: \"Z\"\n" % c, 1), "base"))
        out.append(("line-comment-%s-then-not" % n, base.replace("if uid", "if // check%snot\n uid" % c, 1), "base"))
    out.append(("block-comment-cr", base.replace("\n", " /* a\rb */\n", 1), "base"))
    # literal contents that a normalising front end would alter
    contents = {"crlf": "a\r\nb".replace("\n", ""), "cr": "a\rb", "vt": "a\x0bb", "ff": "a\x0cb", "fs": "a\x1cb", "nel": "a\x85b",
                "ls": "a\u2028b", "tab": "a\tb", "2sp": "a  b", "lead": " a", "trail": "a ", "upper": "Ab", "nfd": "cafe\u0301",
                "nfkc": "\ufb01", "bom": "\ufeffa", "nul": "a\x00b", "sub": "a\x1ab", "end": "__END__", "slashes": "a//b",
                "block": "a/*b*/c", "open": "a/*b", "close": "a*/b", "hash": "a#b", "semi": "a;b", "bslash": "a\\", "bs-n": "a\\nb",
                "brace": "}", "quote": "it's", "kw": "else if", "nbsp": "a\xa0b", "zero-width": "a\u200bb", "expandtabs": "\ta\t"}
    for n, c in contents.items():
        q = '"' if '"' not in c else "'"
        out.append(("salt-" + n, base.replace('"S"', q + c + q), None))
        out.append(("label-" + n, base.replace('"A"', q + c + q), None))
        out.append(("operand-" + n, base.replace('"k"', q + c + q), None))
    # not programs
    bad = {"after-brace-id": base + " x", "after-brace-brace": base + " }", "after-brace-def": base + "\n" + base,
           "after-brace-nul": base + "\x00", "after-brace-sub": base + "\x1a", "after-brace-number": base + " 1",
           "after-brace-string": base + ' "note"', "after-end-marker": base + "\n__END__\nnotes",
           "bom-first": "\ufeff" + base, "nul-first": "\x00" + base, "missing-brace": base[:-1], "missing-brace-blank": base[:-1] + "\n",
           "open-comment": base + " /* never closed", "open-comment-mid": base.replace("\n", " /* open\n", 1),
           "comment-eats-brace": base[:-1] + "// }", "upper-kw": base.replace("def", "DEF", 1), "upper-return": base.replace("return", "RETURN"),
           "hash-comment": base.replace("\n", " # note\n", 1), "semicolons": base.replace("\n", ";\n"), "zero-width-sep": base.replace("\n", "\u200b"),
           "illegal-at-end": base + " $", "illegal-at-end-2": base + "\n@", "lone-quote-end": base + ' "', "empty": "", "blank": " \n",
           "only-comment": "// nothing", "newline-in-string": base.replace('"S"', '"S\nT"'), "backslash-continuation": base.replace("salt:", "salt:\\\n"),
           "illegal-after-crlf": base + "\r\n$", "cr-comment-hides-all": "// header\r" + base,
           "ff-comment-hides-all": "// header\x0c" + base, "ls-comment-hides-all": "// header\u2028" + base}
    for n, t in bad.items():
        out.append(("bad-" + n, t, None))
    return out


def _glue_reference(text):
    """-> ("reject", why) | ("accept", [(class, value)])"""
    from vf.ref import tokens as rt
    from vf.cfgsym import cyk
    try:
        toks = rt.py_tokenize(text)
    except rt.RefLexError as e:
        return ("reject", "lexical error at %s" % (e.args[0],))
    if not cyk.recognize(cyk.ref_grammar(), [t[0] for t in toks]):
        return ("reject", "not a sentence")
    return ("accept", [(t[0], t[2]) for t in toks])


def _leaves(v, strs, nums):
    import enum
    if isinstance(v, enum.Enum) or v is None or isinstance(v, bool):
        return
    if isinstance(v, str):
        strs.append(v)
    elif isinstance(v, (int, float)):
        nums.append(float(abs(v)))
    elif isinstance(v, dict):
        for x in v.values():
            _leaves(x, strs, nums)
    elif isinstance(v, (list, tuple)):
        for x in v:
            _leaves(x, strs, nums)


@register("glue_search")
def replay_glue_search(p):
    """parse_source against the reference lexer + grammar on the corpus of seam texts; reports the first discrepancy of a
    class the calling property is about"""
    import contextlib
    import io
    from pyab_experiment.utils.wraper_functions import parse_source
    classes = set(p.get("classes") or [])
    corpus = glue_corpus()
    real = {}
    for name, text, _ in corpus:
        try:
            with contextlib.redirect_stdout(io.StringIO()), contextlib.redirect_stderr(io.StringIO()):
                a = parse_source(text)
            real[name] = ("reject", "returned None") if a is None else ("accept", a.dict())
        except Exception as e:
            real[name] = ("reject", type(e).__name__)
    found = []
    for name, text, variant_of in corpus:
        ref = _glue_reference(text)
        got = real[name]
        if ref[0] == "reject" and got[0] == "accept":
            found.append(("accepts-ill-formed", "%s: accepted although the reference rejects it (%s): %r" % (name, ref[1], text[-40:])))
        elif ref[0] == "accept" and got[0] == "reject":
            cls = "rejects-well-formed-trivia" if variant_of else "rejects-well-formed"
            found.append((cls, "%s: rejected (%s) although it is a sentence: %r" % (name, got[1], text[:60])))
            if not variant_of:
                found.append(("literal-changed", "%s: a text whose only peculiarity is the content of a literal is rejected (%s)" % (name, got[1])))
        elif ref[0] == "accept":
            rs = sorted(v for c, v in ref[1] if c in ("ID", "STRING_LITERAL"))
            rn = sorted(float(v) for c, v in ref[1] if c in ("NON_NEG_INTEGER", "NON_NEG_FLOAT"))
            gs, gn = [], []
            _leaves(got[1], gs, gn)
            if sorted(gs) != rs or sorted(gn) != rn:
                diff = [x for x in rs if x not in gs] or [x for x in gs if x not in rs]
                found.append(("literal-changed", "%s: literal values differ from the text: %r" % (name, diff[:2])))
            if variant_of and real[variant_of][0] == "accept" and repr(got[1]) != repr(real[variant_of][1]):
                found.append(("trivia-changes-meaning", "%s: same tokens as %s, different tree" % (name, variant_of)))
    hits = [f for f in found if f[0] in classes] if classes else found
    return {"reproduced": bool(hits), "expected": "parse_source agrees with the reference lexer and grammar on %d seam texts" % len(corpus),
            "observed": "; ".join("%s" % h[1] for h in hits[:2]) or "no discrepancy of the classes %s (others: %d)" % (sorted(classes), len(found))}


@register("glue_history")
def replay_glue_history(p):
    """state carried from one parse_source call to the next: every text must be judged as in a fresh process, whatever
    was parsed (and rejected) before it"""
    import contextlib
    import io
    from pyab_experiment.utils.wraper_functions import parse_source
    classes = set(p.get("classes") or [])
    ok = 'def e { return "a" weighted 1 }'
    poisons = ['def x { salt: "s" /* open', 'def x { /*', '/* open', ok + ' /* open', 'def /* x', 'def x { return "a" /* weighted 1 }',
               'def x { salt: "unclosed', 'def x { $', ok + ' x', '']
    victims = [("ill", 'junk */ ' + ok), ("ill", '* header */ ' + ok), ("ill", ok + ' /* -- */ ' + ok.replace('"a"', '"b"')),
               ("ill", '*/ ' + ok), ("ill", 'x */'), ("well", ok), ("well", '/* h */ ' + ok), ("well", 'def e { salt: "s" /* c */ return "a" weighted 1 }'),
               ("well", ok.replace('"a"', '"a */ b"'))]

    def verdict(text):
        try:
            with contextlib.redirect_stdout(io.StringIO()), contextlib.redirect_stderr(io.StringIO()):
                a = parse_source(text)
            return ("reject", "None") if a is None else ("accept", repr(a.dict()))
        except Exception as e:
            return ("reject", type(e).__name__)
    clean = {}
    for kind, v in victims:
        clean[v] = verdict(v)
        ref = _glue_reference(v)
        if (ref[0] == "accept") != (clean[v][0] == "accept"):
            return {"reproduced": ("accepts-ill-formed" if kind == "ill" else "rejects-well-formed") in classes or not classes,
                    "expected": "agreement with the reference", "observed": "before any history: %r judged %s, reference %s" % (v, clean[v][0], ref[0])}
    found = []
    for po in poisons:
        for kind, v in victims:
            verdict(po)
            got = verdict(v)
            if got != clean[v]:
                if kind == "ill" and got[0] == "accept":
                    found.append(("accepts-ill-formed", "after parse_source(%r) was rejected, %r is accepted" % (po, v)))
                elif kind == "well" and got[0] == "reject":
                    found.append(("rejects-well-formed", "after parse_source(%r) was rejected, the sentence %r is rejected (%s)" % (po, v, got[1])))
                    found.append(("rejects-well-formed-trivia", found[-1][1]))
                else:
                    found.append(("trivia-changes-meaning", "after parse_source(%r), %r parses to a different tree" % (po, v)))
                    found.append(("literal-changed", found[-1][1]))
    hits = [f for f in found if f[0] in classes] if classes else found
    return {"reproduced": bool(hits), "expected": "every text judged as in a fresh process",
            "observed": "; ".join(h[1] for h in hits[:2]) or "no history changes a verdict (classes %s, others %d)" % (sorted(classes), len(found))}


@register("probit_quantile")
def replay_probit_quantile(p):
    """numeric search: is the module's z-score below the true normal quantile somewhere? (true quantile from
    statistics.NormalDist, compared with a relative margin of 1e-9: the logit bound touches the quantile to first order
    at alpha = 1/2, where only rounding noise separates them)"""
    import statistics
    from pyab_experiment.utils.stats import probit
    N = statistics.NormalDist()
    cands = [p.get("alpha", 0.25)]
    cands += [k / 1000 for k in range(1, 1000)] + [k / 100000 for k in range(1, 1000)] + [1 - k / 100000 for k in range(1, 1000)]
    cands += [10.0 ** -e for e in range(3, 16)] + [1 - 10.0 ** -e for e in range(3, 16)] + [0.5 + d for d in (1e-3, -1e-3, 1e-2, -1e-2)]
    cands += [10.0 ** -e for e in (20, 30, 50, 80, 100, 120, 150, 200, 250, 300, 307)] + [5e-324, 1 - 2.0 ** -53]
    bad = []
    for a in cands:
        if not 0 < a < 1 or a == 0.5:
            continue
        o = outcome_of(lambda: probit(a))
        q = abs(N.inv_cdf(a))
        if o[0] != "value" or not isinstance(o[1], (int, float)):
            bad.append((a, show(o), q))
        elif o[1] < q * (1 - 1e-9) - 1e-12:
            bad.append((a, o[1], q))
        if len(bad) >= 3:
            break
    return {"reproduced": bool(bad), "expected": "probit(alpha) >= normal quantile on %d points" % len(cands),
            "observed": "; ".join("probit(%r) = %r < quantile %r" % b for b in bad) or "never below the true quantile on the grid"}
