"""Bounded language comparison of two context-free grammars as a SAT problem (CYK-style
circuits over K symbolic token variables) -- the CFGAnalyzer formulation."""
from __future__ import annotations

import z3


class Grammar:
    def __init__(self, start, productions, terminals):
        self.start = start
        self.prods = [(a, list(rhs)) for a, rhs in productions]
        self.terminals = list(terminals)
        self.nonterminals = sorted({a for a, _ in self.prods})
        for a, rhs in self.prods:
            for x in rhs:
                if x not in self.terminals and x not in self.nonterminals:
                    raise ValueError("symbol %s of production %s is neither terminal nor nonterminal" % (x, a))
        self._binarize()
        self._nullable()
        self._order()

    def _binarize(self):
        """A -> X1 X2 ... Xk  becomes  A -> X1 A#i.1 ; A#i.1 -> X2 A#i.2 ; ...  (k > 2)"""
        self.bprods = []
        n = 0
        for a, rhs in self.prods:
            if len(rhs) <= 2:
                self.bprods.append((a, rhs))
                continue
            n += 1
            cur = a
            for i in range(len(rhs) - 2):
                nxt = "%s#%d.%d" % (a, n, i + 1)
                self.bprods.append((cur, [rhs[i], nxt]))
                cur = nxt
            self.bprods.append((cur, rhs[-2:]))
        self.bnts = sorted({a for a, _ in self.bprods})

    def _nullable(self):
        nl = set()
        changed = True
        while changed:
            changed = False
            for a, rhs in self.bprods:
                if a not in nl and all(x in nl for x in rhs):
                    nl.add(a)
                    changed = True
        self.nullable = nl

    def _order(self):
        """same-span dependencies must be acyclic (no cyclic unit derivations); returns a rank"""
        deps = {a: set() for a in self.bnts}
        for a, rhs in self.bprods:
            if len(rhs) == 1 and rhs[0] in deps:
                deps[a].add(rhs[0])
            if len(rhs) == 2:
                x, y = rhs
                if y in self.nullable and x in deps:
                    deps[a].add(x)
                if x in self.nullable and y in deps:
                    deps[a].add(y)
        rank = {}
        visiting = set()

        def visit(a):
            if a in rank:
                return rank[a]
            if a in visiting:
                raise ValueError("cyclic unit/nullable derivation through %s: grammar not well-founded" % a)
            visiting.add(a)
            r = 0
            for b in deps[a]:
                r = max(r, visit(b) + 1)
            visiting.discard(a)
            rank[a] = r
            return r
        for a in self.bnts:
            visit(a)
        self.rank = rank


class Circuit:
    """membership circuit of one grammar over shared token variables"""

    def __init__(self, grammar, toks, term_index, K):
        self.g = grammar
        self.toks = toks
        self.tix = term_index
        self.K = K
        self.memo = {}
        self.by_head = {}
        for a, rhs in grammar.bprods:
            self.by_head.setdefault(a, []).append(rhs)

    def sym(self, x, i, j):
        """symbol x derives tokens[i:j]"""
        if x in self.tix:
            if j - i == 1:
                return self.toks[i] == self.tix[x]
            return z3.BoolVal(False)
        return self.nt(x, i, j)

    def nt(self, a, i, j):
        key = (a, i, j)
        if key in self.memo:
            return self.memo[key]
        if i == j:
            v = z3.BoolVal(a in self.g.nullable)
            self.memo[key] = v
            return v
        alts = []
        for rhs in self.by_head.get(a, []):
            if len(rhs) == 0:
                continue
            if len(rhs) == 1:
                alts.append(self.sym(rhs[0], i, j))
                continue
            x, y = rhs
            for m in range(i, j + 1):
                if m == i and not (x in self.g.nullable):
                    continue
                if m == j and not (y in self.g.nullable):
                    continue
                if m == i:
                    alts.append(self.sym(y, i, j))      # x => eps
                elif m == j:
                    alts.append(self.sym(x, i, j))      # y => eps
                else:
                    l, r = self.sym(x, i, m), self.sym(y, m, j)
                    if z3.is_false(l) or z3.is_false(r):
                        continue
                    alts.append(z3.And(l, r))
        alts = [t for t in alts if not z3.is_false(t)]
        v = z3.Or(*alts) if alts else z3.BoolVal(False)
        # name the sub-circuit so that the formula stays a DAG of reasonable size
        if alts:
            b = z3.Bool("M_%s_%s_%d_%d" % (id(self) % 100000, a, i, j))
            self.defs.append(b == v)
            v = b
        self.memo[key] = v
        return v

    def member(self, length_var):
        self.defs = []
        cases = []
        for l in range(0, self.K + 1):
            cases.append(z3.And(length_var == l, self.nt(self.g.start, 0, l)))
        return z3.Or(*cases), self.defs


def compare(g_impl, g_ref, K, timeout_ms, direction, exact_len=None, extra=None, tally=None, label=None, blocked=()):
    """direction: 'impl_not_ref' | 'ref_not_impl' | 'both_accept' | 'impl_only' ...
    returns (verdict, tokens or None)"""
    from vf import common
    terms = sorted(set(g_impl.terminals) | set(g_ref.terminals))
    tix = {t: i for i, t in enumerate(terms)}
    toks = [z3.Int("tok_%d" % i) for i in range(K)]
    L = z3.Int("len")
    cons = [L >= 0, L <= K]
    for t in toks:
        cons += [t >= 0, t < len(terms)]
    ci = Circuit(g_impl, toks, tix, K)
    cr = Circuit(g_ref, toks, tix, K)
    mi, di = ci.member(L)
    mr, dr = cr.member(L)
    cons += di + dr
    if direction == "impl_not_ref":
        cons += [mi, z3.Not(mr)]
    elif direction == "ref_not_impl":
        cons += [mr, z3.Not(mi)]
    elif direction == "both":
        cons += [mi, mr]
    elif direction == "neither_near":
        cons += [z3.Not(mi), z3.Not(mr)]
    if exact_len is not None:
        cons.append(L == exact_len)
    for b in blocked:
        cons.append(z3.Or(L != len(b), *[toks[i] != tix[t] for i, t in enumerate(b)]))
    if extra:
        cons += extra(toks, L, tix)
    tally = tally or common.Tally()
    r, m = common.check(tally, cons, timeout_ms, label=label or ("cfg %s K=%d" % (direction, K)), keep_sample=False)
    if r == "sat":
        n = m.eval(L, model_completion=True).as_long()
        seq = [terms[m.eval(toks[i], model_completion=True).as_long()] for i in range(n)]
        return "sat", seq
    return r, None


def live_grammar():
    from pyab_experiment.language.grammar import ExperimentParser
    g = ExperimentParser._grammar
    prods = []
    for p in g.Productions[1:]:
        prods.append((p.name, list(p.prod)))
    terms = [t for t in g.Terminals if t != "error"]
    return Grammar(g.Start, prods, terms), ExperimentParser


def ref_grammar():
    from vf.ref import grammar as rg
    return Grammar(rg.START, rg.PRODUCTIONS, rg.TERMINALS)


def recognize(g, tokens):
    """concrete membership (same chart recursion as the circuit, on Python booleans)"""
    n = len(tokens)
    memo = {}
    by_head = {}
    for a, rhs in g.bprods:
        by_head.setdefault(a, []).append(rhs)

    def sym(x, i, j):
        if x in g.terminals:
            return j - i == 1 and tokens[i] == x
        if x not in by_head:
            return False
        return nt(x, i, j)

    def nt(a, i, j):
        key = (a, i, j)
        if key in memo:
            return memo[key]
        if i == j:
            memo[key] = a in g.nullable
            return memo[key]
        memo[key] = False   # cycles cannot occur (well-founded order checked at construction)
        res = False
        for rhs in by_head.get(a, []):
            if not rhs:
                continue
            if len(rhs) == 1:
                if sym(rhs[0], i, j):
                    res = True
                    break
                continue
            x, y = rhs
            for m in range(i, j + 1):
                if m == i:
                    ok = (x in g.nullable) and sym(y, i, j)
                elif m == j:
                    ok = (y in g.nullable) and sym(x, i, j)
                else:
                    ok = sym(x, i, m) and sym(y, m, j)
                if ok:
                    res = True
                    break
            if res:
                break
        memo[key] = res
        return res
    return nt(g.start, 0, n)
