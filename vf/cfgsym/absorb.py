"""PARSE-ABSORB: does the LR driver ever resume parsing after a syntax error?

The `if t is None:` block of sly's Parser.parse (located in the live source by shape) is
executed by pysym from a havoc'd configuration under the loop invariant
`errorcount == 0 and not self.errorok` (true initially; the block is the only writer of both),
with `self.error` dispatched to the live ExperimentParser.error (interpreted from its source).
Every feasible path must leave parse() by raising or by `return` (None -> ParseError in the
evaluator); a path that reaches `continue` means recovery resumes and tokens can be absorbed.
"""
from __future__ import annotations

import ast
import inspect
import textwrap

import z3

from vf import common
from vf.pysym import api
from vf.pysym.explore import Return, Raise, Unsup, SymRaise
from vf.pysym.interp import ModuleEnv, Scope


class _ContinueToReturn(ast.NodeTransformer):
    def visit_Continue(self, node):
        return ast.copy_location(ast.Return(value=ast.Constant(value="CONTINUE-PARSING")), node)

    def visit_FunctionDef(self, node):
        return node

    def visit_While(self, node):
        return node   # `continue` inside a nested loop belongs to that loop

    visit_For = visit_While


def error_block():
    from pyab_experiment.sly.yacc import Parser
    src = textwrap.dedent(inspect.getsource(Parser.parse))
    tree = ast.parse(src)
    fdef = tree.body[0]
    loops = [n for n in ast.walk(fdef) if isinstance(n, ast.While)]
    for loop in loops:
        for st in loop.body:
            if isinstance(st, ast.If) and isinstance(st.test, ast.Compare) and isinstance(st.test.left, ast.Name) \
                    and st.test.left.id == "t" and isinstance(st.test.ops[0], ast.Is) \
                    and isinstance(st.test.comparators[0], ast.Constant) and st.test.comparators[0].value is None:
                return st, ast.unparse(st)
    raise common.Inconclusive("cannot locate the `if t is None:` block in Parser.parse")


class Sym_:
    def __init__(self, type_):
        self.attrs = {"type": type_, "lineno": 1, "index": 0, "end": 1, "value": "v"}

    def pysym_getattr(self, ctx, interp, name):
        if name in self.attrs:
            return self.attrs[name]
        raise SymRaise(AttributeError(name))

    def pysym_setattr(self, ctx, interp, name, v):
        self.attrs[name] = v


def analyse():
    """-> list of dict(outcome, description) per feasible path"""
    import pyab_experiment.sly.yacc as yacc
    from pyab_experiment.language.grammar import ExperimentParser
    block, block_src = error_block()
    body = [_ContinueToReturn().visit(s) for s in ast.parse(block_src).body[0].body]
    fn = ast.FunctionDef(
        name="error_branch",
        args=ast.arguments(posonlyargs=[], args=[ast.arg(arg=a) for a in
                                                 ["self", "lookahead", "errorcount", "statestack", "symstack",
                                                  "lookaheadstack", "errtoken", "t"]],
                           kwonlyargs=[], kw_defaults=[], defaults=[]),
        body=body + [ast.Return(value=ast.Constant(value="FELL-THROUGH"))], decorator_list=[], type_params=[])
    mod = ast.Module(body=[fn], type_ignores=[])
    ast.fix_missing_locations(mod)
    # the parser's own error(): most derived definition
    err_src = textwrap.dedent(inspect.getsource(ExperimentParser.error))
    err_def = ast.parse(err_src).body[0]
    err_def.decorator_list = []
    err_globals = dict(ExperimentParser.error.__globals__)

    results = []
    configs = []
    for la_type in ("$end", "ID"):
        for depth in (1, 3):
            for top_error in (False, True):
                configs.append((la_type, depth, top_error))
    encoded = {}
    for la_type, depth, top_error in configs:
        def entry(it, la_type=la_type, depth=depth, top_error=top_error):
            env = ModuleEnv("pyab_experiment.sly.yacc")
            g = dict(vars(yacc))
            env.vars = g
            scope = Scope("module", g, g, owner=env)
            it.exec_body(mod.body, scope)
            genv = ModuleEnv(ExperimentParser.error.__module__)
            genv.vars = err_globals
            escope = Scope("module", err_globals, err_globals, owner=genv)
            it.exec_body([err_def], escope)
            err_fn = err_globals[err_def.name]

            class Self_:
                def __init__(s):
                    s.attrs = {"errorok": False, "state": 5}

                def pysym_getattr(s, ctx, interp, name):
                    if name == "error":
                        from vf.pysym.interp import PyBoundMethod
                        return PyBoundMethod(err_fn, s)
                    if name in s.attrs:
                        return s.attrs[name]
                    raise SymRaise(AttributeError(name))

                def pysym_setattr(s, ctx, interp, name, v):
                    s.attrs[name] = v
            la = Sym_(la_type)
            symstack = it.ctx.alloc([Sym_("$end")] + [Sym_("x") for _ in range(depth - 1)])
            if top_error and depth > 1:
                symstack[-1] = Sym_("error")
            statestack = it.ctx.alloc(list(range(depth)))
            return it.call(g["error_branch"], [Self_(), la, 0, statestack, symstack, it.ctx.alloc([]), None, None], {})
        run = api.run(entry, opts={"prune": True})
        encoded.update(run.encoded_digest())
        for p in run.paths:
            desc = "lookahead=%s stack depth=%d%s" % (la_type, depth, " (error symbol on top)" if top_error else "")
            if isinstance(p.outcome, Unsup):
                results.append({"outcome": "unsupported", "desc": desc, "reason": p.outcome.reason})
            elif isinstance(p.outcome, Raise):
                results.append({"outcome": "raise", "desc": desc, "exc": p.outcome.exc_name})
            elif p.outcome.value is None:
                results.append({"outcome": "return-none", "desc": desc})
            else:
                results.append({"outcome": str(p.outcome.value), "desc": desc})
    return results, encoded, block_src
