"""One-step lexer lemmas (DESIGN.md section 4.2), each a single regular-membership query over
y = s MARK r (s: consumed lexeme, r: rest of the text) or over x (no marker)."""
from __future__ import annotations

import z3

from vf import common
from vf.common import Tally
from vf.lexsym import rx, model
from vf.lexsym.rx import to_z3, ANYCH
from vf.ref import tokens as ref

TIMEOUT = 120000


def Y():
    return z3.String("y")


def split_model(m, var):
    from vf.harness import z3str_to_py
    y = z3str_to_py(m.eval(var, model_completion=True))
    mk = chr(rx.MARK)
    if mk in y:
        s, r = y.split(mk, 1)
        return s, r
    return y, ""


def query(tally, regex, label, sample=False, timeout=TIMEOUT):
    y = Y()
    res, m = common.check(tally, [z3.InRe(y, regex)], timeout, label=label, keep_sample=sample)
    if res == "unknown":
        raise common.Inconclusive("solver unknown on lexer lemma: %s" % label)
    if res == "sat":
        return split_model(m, y)
    return None


def load(tally):
    from pyab_experiment.language.lexer import ExperimentLexer
    # phase 1: parse every rule of every state class reachable by name from the lexer module and the
    # reference classes, registering their character sets; then freeze the alphabet abstraction
    import pyab_experiment.language.lexer as lexmod
    from pyab_experiment.sly.lex import Lexer as _SlyLexer
    rx.ALPHA.__init__()
    model.reset_memo()
    ref._CACHE.clear()
    pre = {}
    for name, obj in vars(lexmod).items():
        if isinstance(obj, type) and issubclass(obj, _SlyLexer) and obj is not _SlyLexer:
            pre[obj.__name__] = model.load_state(obj, tally)
    for cset in (ref.DIGIT, ref.SPACE, ref.WORD, ref.IDCHAR, ref.IDSTART, ref.NOT_NL, ref.CONTEXT_FIRST, rx.NEWLINE):
        rx.ALPHA.register(cset)
    for c in ref.all_classes():
        rx.register_rx(c.rx)
    rx.ALPHA.freeze()
    ref._CACHE.pop("longer", None)
    for st in pre.values():
        model.classify_state(st, tally)
    main = pre["ExperimentLexer"]
    states = {"ExperimentLexer": main}
    # states reachable through push_state
    pending = [main]
    effects = {}
    while pending:
        st = pending.pop()
        for r in st.rules:
            if r.func is None:
                continue
            key = (st.name, r.name)
            if key in effects:
                continue
            paths, run = model.function_effect(r.func, to_z3(r.rx), init_type=r.type)
            effects[key] = (paths, run)
            for p in paths:
                for cls in p.get("pushes", []):
                    if isinstance(cls, type) and cls.__name__ not in states:
                        if cls.__name__ not in pre:
                            raise common.Inconclusive("lexer state %s is not defined in the lexer module" % cls.__name__)
                        ns = pre[cls.__name__]
                        states[cls.__name__] = ns
                        pending.append(ns)
    err = {}
    for name, st in states.items():
        paths, run = model.function_effect(st.error_func, None, is_error=True)
        err[name] = (paths, run)
    return states, effects, err


def rule_behaviour(state, rule, effects):
    """-> dict(kind='token'|'ignore'|'push'|'pop'|'raise'|'mixed', ...) summarising the effect"""
    if rule.func is None:
        return {"kind": "ignore" if rule.ignored_type else "token", "value": "lexeme"}
    paths, run = effects[(state.name, rule.name)]
    kinds = set()
    for p in paths:
        if p["outcome"] == "unsupported":
            return {"kind": "unsupported", "reason": p["reason"]}
        if p["outcome"] == "raise":
            kinds.add("raise")
        elif p["pushes"]:
            kinds.add("push")
        elif p["pops"]:
            kinds.add("pop")
        elif p["outcome"] == "none" or rule.ignored_type:
            kinds.add("ignore")
        elif p["outcome"] == "token":
            kinds.add("token")
        else:
            kinds.add("other")
    if len(kinds) != 1:
        return {"kind": "mixed", "kinds": sorted(kinds)}
    k = kinds.pop()
    d = {"kind": k, "paths": paths}
    if k == "push":
        d["target"] = [c for p in paths for c in p["pushes"]][0]
        d["emits"] = any(p["outcome"] == "token" for p in paths) and not rule.ignored_type
    if k == "pop":
        d["emits"] = any(p["outcome"] == "token" for p in paths) and not rule.ignored_type
    return d


def union(parts):
    parts = list(parts)
    if not parts:
        return z3.Empty(z3.ReSort(z3.StringSort()))
    return parts[0] if len(parts) == 1 else z3.Union(*parts)


class LexAnalysis:
    def __init__(self):
        self.tally = Tally()
        self.states, self.effects, self.err = load(self.tally)
        self.main = self.states["ExperimentLexer"]
        self.findings = []     # (lemma, class, text x, lexeme s, description)
        self.discharged = []
        self.unsupported = []
        for key, (paths, run) in list(self.effects.items()) + [(("error", k), v) for k, v in self.err.items()]:
            for p in list(paths):
                if p["outcome"] == "unsupported":
                    # feasible at all?  (the path condition is a regular constraint on the lexeme: one membership query)
                    try:
                        reg = model.cond_to_regex(p["conds"])
                        lx = z3.String("lexeme")
                        res, m = common.check(self.tally, [z3.InRe(lx, reg)], 60000, label="token function: unsupported path feasible?")
                        if res == "unsat":
                            paths.remove(p)
                            continue
                    except rx.RxUnsupported:
                        pass
                    self.unsupported.append("%s: %s" % (key, p["reason"]))

    # -- helpers ------------------------------------------------------------------------
    def emissions(self, state, rule):
        """[(emitted token type or None, regex over y restricting the lexeme)] for one rule"""
        anyc = to_z3(ANYCH)
        whole = z3.Concat(z3.Star(anyc), model.markre(), z3.Star(anyc))
        out = []
        remap = (getattr(state.cls, "_remapping", None) or {}).get(rule.type) or {}
        if remap:
            # sly: tok.type = _remapping[type].get(tok.value, type) BEFORE the token function is looked up
            vals = []
            for value, newtype in remap.items():
                if not isinstance(value, str):
                    raise common.Inconclusive("token remapping on a non-string value")
                if newtype in state.cls._token_funcs:
                    raise common.Inconclusive("remapped token type %s has a token function" % newtype)
                lit = z3.Re(z3.StringVal(value))
                vals.append(lit)
                ignored = newtype in state.cls._ignored_tokens
                out.append((None if ignored else newtype, z3.Concat(lit, model.markre(), z3.Star(anyc))))
            others = z3.Concat(z3.Intersect(z3.Star(anyc), z3.Complement(union(vals))), model.markre(), z3.Star(anyc))
        else:
            others = whole
        if rule.func is None:
            return out + [(None if rule.ignored_type else rule.type, others)]
        paths, run = self.effects[(state.name, rule.name)]
        whole = others
        for p in paths:
            if p["outcome"] != "token":
                out.append((None, whole))
                continue
            t = p.get("type")
            if not isinstance(t, str):
                raise common.Inconclusive("token function %s assigns a non-constant token type" % rule.name)
            # conds[0] is the assumption "lexeme in L(rule)"; the rest are the function's own branch conditions
            lexre = model.cond_to_regex(p["conds"], n_skip=1)
            ignored = t in state.cls._ignored_tokens
            out.append((None if ignored else t, z3.Concat(lexre, model.markre(), z3.Star(anyc))))
        return out

    def fires_by_type(self, state, ttype, behaviour_kind=None):
        regs = []
        for r in state.rules:
            f = None
            for t, restr in self.emissions(state, r):
                if t == ttype:
                    if f is None:
                        f = model.fires_re(state, r)
                    regs.append(z3.Intersect(f, restr))
        return union(regs)

    def add(self, lemma, cls, witness, desc):
        self.findings.append({"lemma": lemma, "class": cls, "lexeme": witness[0], "rest": witness[1],
                              "text": witness[0] + witness[1], "desc": desc})

    # -- lemmas -------------------------------------------------------------------------
    def oracle_selfcheck(self):
        """facts about the reference used by the encoding"""
        others = union(to_z3(c.rx) for c in ref.all_classes() if c.name != "BLOCK_COMMENT")
        anyc = to_z3(ANYCH)
        pref = z3.Union(z3.Re(z3.StringVal("/")), z3.Concat(z3.Re(z3.StringVal("/*")), z3.Star(anyc)))
        w = query(self.tally, z3.Intersect(others, pref), "oracle: no class lexeme is a proper prefix of a block comment")
        if w is not None:
            raise common.Inconclusive("oracle self-check failed: %r" % (w,))
        self.discharged.append("oracle: block comments never compete with another class")

    def accept(self, cname):
        """LX-ACCEPT(c): reference yields class c with lexeme s  =>  implementation emits c with lexeme s"""
        c = ref.by_name(cname)
        impl = self.fires_by_type(self.main, cname)
        reg = z3.Intersect(ref.ref_fires(c), ref.context_ok(), z3.Complement(impl))
        w = query(self.tally, reg, "LX-ACCEPT(%s): reference yields the token, implementation step does not" % cname,
                  sample=(cname in ("ID", "KW_GE")))
        if w is not None:
            self.add("LX-ACCEPT", cname, w, "the reference lexer yields %s(%r) here, the implementation does not" % (cname, w[0]))
        else:
            self.discharged.append("LX-ACCEPT(%s)" % cname)
        # vacuity twin: the reference class is inhabited in an allowed context
        t = query(self.tally, z3.Intersect(ref.ref_fires(c), ref.context_ok()), "twin: LX-ACCEPT(%s) hypothesis inhabited" % cname)
        if t is None:
            raise common.Inconclusive("vacuous LX-ACCEPT(%s)" % cname)
        return t

    def only(self, rule):
        """LX-ONLY: implementation emits a token  =>  the reference yields the same one"""
        st = self.main
        for etype, restr in self.emissions(st, rule):
            if etype is None:
                continue
            fires = z3.Intersect(model.fires_re(st, rule), restr)
            try:
                c = ref.by_name(etype)
            except KeyError:
                c = None
            if c is None:
                w = query(self.tally, fires, "LX-ONLY(%s): implementation token %s with no reference class" % (rule.name, etype))
                if w is not None:
                    self.add("LX-ONLY", etype, w, "implementation emits %s(%r), a token the documentation does not have" % (etype, w[0]))
                continue
            reg = z3.Intersect(fires, ref.context_ok(), z3.Complement(ref.ref_fires(c)))
            w = query(self.tally, reg, "LX-ONLY(%s as %s): implementation emits the token, reference does not" % (rule.name, etype))
            if w is not None:
                self.add("LX-ONLY", etype, w, "the implementation emits %s(%r) where the reference lexer does not" % (etype, w[0]))
            else:
                self.discharged.append("LX-ONLY(%s#%d as %s)" % (rule.name, rule.index, etype))

    def reject(self):
        """LX-REJECT: reference error (and not a comment opener) => no implementation rule matches, and error() raises"""
        anyc = to_z3(ANYCH)
        opener = z3.Concat(z3.Re(z3.StringVal("/*")), z3.Star(anyc))
        impl_some = z3.Complement(model.norule_re(self.main))
        reg = z3.Intersect(ref.ref_error(), z3.Complement(opener), impl_some)
        w = query(self.tally, reg, "LX-REJECT: reference rejects at this position, an implementation rule matches", sample=True)
        if w is not None:
            self.add("LX-REJECT", "-", w, "the reference rejects the text here but an implementation rule matches")
        else:
            self.discharged.append("LX-REJECT (no rule matches where the reference rejects)")
        t = query(self.tally, ref.ref_error(), "twin: reference error inhabited")
        if t is None:
            raise common.Inconclusive("vacuous LX-REJECT")
        # what error() does
        paths, run = self.err["ExperimentLexer"]
        skips = [p for p in paths if p["outcome"] != "raise" and p["outcome"] != "unsupported"]
        if skips:
            self.add("LX-REJECT", "error()", (t[0], t[1]), "the lexer's error handler does not raise: the illegal character is skipped")
        else:
            self.discharged.append("LX-REJECT (error handler raises on every path)")
        return t

    def trivia(self):
        """whitespace (W1, W2) and line comments in the main state"""
        st = self.main
        anyc = to_z3(ANYCH)
        space = rx.z3_set(ref.SPACE)
        # W1: text starting with whitespace -> some rule matches (no error)
        w = query(self.tally, z3.Intersect(z3.Concat(space, z3.Star(anyc)), model.norule_re(st)),
                  "LX-TRIVIA(ws) W1: whitespace at the start, no rule matches")
        if w is not None:
            self.add("LX-TRIVIA", "WS", w, "whitespace is not consumed")
        else:
            self.discharged.append("LX-TRIVIA(ws) W1")
        # W2: whichever rule fires on text starting with whitespace is an ignore rule dropping only whitespace
        for r in st.rules:
            beh = rule_behaviour(st, r, self.effects)
            fires = model.fires_re(st, r)
            starts_ws = z3.Concat(space, z3.Star(anyc))
            if beh["kind"] == "ignore":
                reg = z3.Intersect(fires, starts_ws, z3.Complement(z3.Concat(z3.Plus(space), model.markre(), z3.Star(anyc))))
                lab = "LX-TRIVIA(ws) W2: %s drops something other than whitespace" % r.name
            else:
                reg = z3.Intersect(fires, starts_ws)
                lab = "LX-TRIVIA(ws) W2: non-ignore rule %s fires on leading whitespace" % r.name
            w = query(self.tally, reg, lab)
            if w is not None:
                self.add("LX-TRIVIA", "WS", w, "rule %s consumes %r at leading whitespace" % (r.name, w[0]))
            else:
                self.discharged.append("LX-TRIVIA(ws) W2 %s" % r.name)
        # line comments: same lexeme as the reference, ignored
        c = ref.by_name("LINE_COMMENT")
        ign = union(model.fires_re(st, r) for r in st.rules if rule_behaviour(st, r, self.effects)["kind"] == "ignore")
        w = query(self.tally, z3.Intersect(ref.ref_fires(c), z3.Complement(ign)),
                  "LX-TRIVIA(line comment): reference drops //..., implementation does not drop exactly that", sample=True)
        if w is not None:
            self.add("LX-TRIVIA", "LINE_COMMENT", w, "line comment %r is not dropped as a whole" % w[0])
        else:
            self.discharged.append("LX-TRIVIA(line comment)")
        # every ignore rule drops only reference trivia (whitespace or a whole line comment)
        for r in st.rules:
            if rule_behaviour(st, r, self.effects)["kind"] != "ignore":
                continue
            okl = z3.Union(z3.Concat(z3.Plus(space), model.markre(), z3.Star(anyc)), ref.ref_fires(c))
            w = query(self.tally, z3.Intersect(model.fires_re(st, r), z3.Complement(okl)),
                      "LX-ONLY(trivia): %s drops text that is not trivia" % r.name)
            if w is not None:
                self.add("LX-ONLY", r.name, w, "ignore rule %s silently drops %r" % (r.name, w[0]))
            else:
                self.discharged.append("LX-ONLY(trivia %s)" % r.name)

    def block_comments(self):
        st = self.main
        anyc = to_z3(ANYCH)
        mk = model.markre()
        # opener: "/*" pushes the comment state, emits nothing
        push_rules = [(r, rule_behaviour(st, r, self.effects)) for r in st.rules]
        push_rules = [(r, b) for r, b in push_rules if b["kind"] == "push"]
        opener = z3.Concat(z3.Re(z3.StringVal("/*")), mk, z3.Star(anyc))
        fires = union(model.fires_re(st, r) for r, b in push_rules if not b.get("emits"))
        w = query(self.tally, z3.Intersect(opener, z3.Complement(fires)), "LX-TRIVIA(block) opener: '/*' does not enter the comment state")
        if w is not None or not push_rules:
            self.add("LX-TRIVIA", "BLOCK_COMMENT", w or ("/*", ""), "'/*' does not open a comment")
            return
        self.discharged.append("LX-TRIVIA(block) opener")
        for r, b in push_rules:
            w = query(self.tally, z3.Intersect(model.fires_re(st, r), z3.Complement(opener)),
                      "LX-ONLY(block opener): state pushed on something other than '/*'")
            if w is not None:
                self.add("LX-ONLY", r.name, w, "comment state entered on %r" % w[0])
        target = push_rules[0][1]["target"]
        bc = self.states[target.__name__]
        close = z3.Re(z3.StringVal("*/"))
        no_close = z3.Complement(z3.Concat(z3.Star(anyc), close, z3.Star(anyc)))
        notnl = rx.z3_set(ref.NOT_NL)
        first_line_has_close = z3.Concat(z3.Star(notnl), close, z3.Star(anyc))
        behs = [(r, rule_behaviour(bc, r, self.effects)) for r in bc.rules]
        pops = [r for r, b in behs if b["kind"] == "pop" and not b.get("emits")]
        stays = [r for r, b in behs if b["kind"] == "ignore"]
        # One step from ANY position inside a comment, whatever the rule set of the state looks like (one lazy rule per
        # line, character-level rules, ...).  With c = the first "*/" of the remaining text:
        #   P1  some rule matches every non-empty remainder (progress);
        #   P2  a rule that pops does so exactly at c: its lexeme ends with "*/" and contains no other "*/";
        #   P3  a rule that stays consumes a non-empty chunk without "*/" that does not split one ("*" | "/"), so c is kept;
        #   P4  nothing else happens in the state (no token, no push, no error).
        # P1-P4 give by induction: the state is left exactly after c, and never if there is no "*/" (the end-of-text
        # check is PS-GLUE's business).  When the remainder starts with "*/", P3 forbids every staying rule, so P1 and P4
        # leave only the pop.
        lex_ok = z3.Intersect(z3.Concat(z3.Star(anyc), close),
                              z3.Complement(z3.Concat(z3.Star(anyc), close, z3.Plus(anyc))))
        want_pop = z3.Concat(lex_ok, mk, z3.Star(anyc))
        w = query(self.tally, z3.Intersect(z3.Plus(anyc), model.norule_re(bc)), "LX-TRIVIA(block) P1: no rule matches inside a comment")
        if w is not None:
            self.add("LX-TRIVIA", "BLOCK_COMMENT", w, "inside a comment no rule matches %r" % (w[0] + w[1])[:20])
        else:
            self.discharged.append("LX-TRIVIA(block) P1 progress")
        # at the first close itself the step must pop (follows from P1, P3, P4; asked directly as a cross-check)
        pop_fires = union(model.fires_re(bc, r) for r in pops)
        at_close = z3.Concat(close, mk, z3.Star(anyc))
        some_pop_reaches = z3.Concat(lex_ok, mk, z3.Star(anyc))
        w = query(self.tally, z3.Intersect(at_close, z3.Complement(pop_fires)),
                  "LX-TRIVIA(block) P2': at a '*/' the comment state is not left", sample=True)
        if w is not None:
            self.add("LX-TRIVIA", "BLOCK_COMMENT_END", w, "inside a comment, %r should close it but the step does not pop there" % w[0])
        else:
            self.discharged.append("LX-TRIVIA(block) close at '*/'")
        good_chunk = z3.Concat(z3.Intersect(z3.Plus(anyc), no_close), mk, z3.Star(anyc))
        split_bad = z3.Concat(z3.Star(anyc), z3.Re(z3.StringVal("*")), mk, z3.Re(z3.StringVal("/")), z3.Star(anyc))
        for r, b in behs:
            f = model.fires_re(bc, r)
            if b["kind"] == "pop" and not b.get("emits"):
                w = query(self.tally, z3.Intersect(f, z3.Complement(want_pop)),
                          "LX-TRIVIA(block) P2: %s leaves the comment state somewhere else than at the first '*/'" % r.name, sample=True)
                if w is not None:
                    self.add("LX-TRIVIA", "BLOCK_COMMENT_END", w, "the comment is closed after consuming %r (not the first '*/')" % w[0])
                else:
                    self.discharged.append("LX-TRIVIA(block) P2 %s" % r.name)
            elif b["kind"] == "ignore":
                w = query(self.tally, z3.Intersect(f, z3.Union(z3.Complement(good_chunk), split_bad)),
                          "LX-TRIVIA(block) P3: %s consumes a chunk containing or splitting '*/'" % r.name)
                if w is not None:
                    self.add("LX-TRIVIA", "BLOCK_COMMENT_END", w, "rule %s swallows %r inside a comment" % (r.name, w[0]))
                else:
                    self.discharged.append("LX-TRIVIA(block) P3 %s" % r.name)
            else:
                w = query(self.tally, f, "LX-TRIVIA(block) P4: %s (%s) can fire inside a comment" % (r.name, b["kind"]))
                if w is not None:
                    self.add("LX-TRIVIA", "BLOCK_COMMENT", w, "inside a comment rule %s (%s) fires on %r" % (r.name, b["kind"], w[0]))
                else:
                    self.discharged.append("LX-TRIVIA(block) P4 %s unreachable" % r.name)

    def values(self):
        """token values: INT = decimal value (int), FLOAT = float(text), STRING = text between the quotes, ID = text"""
        from vf.pysym.values import SStr, SInt, SReal
        from vf.pysym import ops
        st = self.main
        out = []
        for r in st.rules:
            try:
                c = ref.by_name(r.type)
            except KeyError:
                continue
            if c.value is None:
                continue
            if r.func is None:
                if c.value != "text":
                    self.add("VALUE", c.name, ("?", ""), "%s has no conversion function (value stays the lexeme text)" % c.name)
                continue
            paths, run = self.effects[(st.name, r.name)]
            for p in paths:
                if p["outcome"] == "unsupported":
                    continue
                lex = p["lexeme"].term
                v = p.get("value")
                if c.value == "int":
                    ascii_digits = z3.InRe(lex, z3.Plus(z3.Range("0", "9")))
                    if not isinstance(v, SInt):
                        res, m = common.check(self.tally, list(p["conds"]) + [ascii_digits], TIMEOUT, label="VALUE(int) type")
                        if res == "sat":
                            self.add("VALUE", c.name, ("12", ""), "integer literal converted to %s" % type(v).__name__)
                        continue
                    res, m = common.check(self.tally, list(p["conds"]) + [ascii_digits, v.term != z3.StrToInt(lex)], TIMEOUT,
                                          label="VALUE(int): token value != decimal value of the lexeme", keep_sample=True)
                elif c.value == "float":
                    from vf.pysym.models import FPARSE
                    if not isinstance(v, SReal):
                        res, m = common.check(self.tally, list(p["conds"]), TIMEOUT, label="VALUE(float) type")
                        if res == "sat":
                            self.add("VALUE", c.name, ("1.5", ""), "decimal literal converted to %s" % type(v).__name__)
                        continue
                    res, m = common.check(self.tally, list(p["conds"]) + [v.term != FPARSE()(lex)], TIMEOUT,
                                          label="VALUE(float): token value != float(lexeme)")
                elif c.value == "string":
                    if not isinstance(v, SStr):
                        self.add("VALUE", c.name, ('"a"', ""), "string literal converted to %s" % type(v).__name__)
                        continue
                    L = z3.Length(lex)
                    res, m = common.check(self.tally, list(p["conds"]) + [v.term != z3.SubString(lex, 1, L - 2)], TIMEOUT,
                                          label="VALUE(string): token value != text between the quotes", keep_sample=True)
                else:
                    if not isinstance(v, SStr):
                        continue
                    res, m = common.check(self.tally, list(p["conds"]) + [v.term != lex], TIMEOUT, label="VALUE(text)")
                if res == "unknown":
                    raise common.Inconclusive("unknown on token value lemma %s" % c.name)
                if res == "sat":
                    from vf.harness import z3str_to_py
                    s = z3str_to_py(m.eval(lex, model_completion=True))
                    self.add("VALUE", c.name, (s, ""), "token value of %r is not the documented value" % s)
                else:
                    self.discharged.append("VALUE(%s)" % c.name)
