"""The live sly lexer as regular step relations.

Per lexer state class (ExperimentLexer, BlockComment, any class reachable through
push_state) the ordered `_rules` are read at run time; each pattern is parsed with Python's
own `re._parser`, its match policy is classified (and the classification justified by solver
queries), and the effect of its token function / of error() is obtained by executing the
function's source with pysym.
"""
from __future__ import annotations

import inspect
import re._constants as sc
import re._parser as sp
import textwrap

import z3

from vf import common
from vf.lexsym import rx
from vf.lexsym.rx import (Rx, Set, Cat, Alt, Star, Plus, Opt, Eps, Z3Rx, cat, alt, to_z3, ins, ins_inner, mark,
                          ANYCH, RxUnsupported)


class Rule:
    def __init__(self, name, index, pattern, items, guard_src):
        self.name = name            # sly rule name (token type before 'ignore_' stripping)
        self.index = index
        self.pattern = pattern
        self.items = items          # sre items of this alternative
        self.rx = None
        self.guard = None
        self.policy = None
        self.policy_why = None
        self.kind = None            # 'token' | 'ignore'
        self.func = None
        self.effect = None

    @property
    def type(self):
        return self.name[7:] if self.name.startswith("ignore_") else self.name


def anyre():
    return z3.Star(to_z3(ANYCH))


def guard_re(guard):
    """language of the rest r allowed by a right-context guard"""
    if guard is None:
        return anyre()
    kind, s = guard
    ok = rx.cs_complement(s)
    return z3.Union(z3.Re(z3.StringVal("")), z3.Concat(rx.z3_set(ok), anyre()))


def guard_re_nonempty(guard):
    if guard is None:
        return z3.Plus(to_z3(ANYCH))
    kind, s = guard
    ok = rx.cs_complement(s)
    return z3.Concat(rx.z3_set(ok), anyre())


MARKRE = None


def markre():
    return z3.Re(z3.StringVal(chr(rx.MARK)))


def _strip(items):
    """unwrap a single capturing group around the whole alternative"""
    items = list(items)
    while len(items) == 1 and items[0][0] == sc.SUBPATTERN and not items[0][1][1] and not items[0][1][2]:
        items = list(items[0][1][3])
    return items


def split_alternatives(pattern):
    items = _strip(sp.parse(pattern))
    if len(items) == 1 and items[0][0] == sc.BRANCH:
        return [_strip(b) for b in items[0][1][1]]
    return [items]


def build_rule(name, index, pattern, items):
    r = Rule(name, index, pattern, items, None)
    items = list(items)
    guard = None
    while items and items[-1][0] in (sc.AT, sc.ASSERT_NOT, sc.ASSERT):
        op, av = items.pop()
        if guard is not None:
            raise RxUnsupported("several trailing assertions in %s" % name)
        guard = rx._guard(op, av, items)
    info = {"lazy": False}
    r.rx = rx._seq(items, info)
    r.guard = guard
    r.lazy = info["lazy"]
    r.core_items = items
    return r


def prefix_free(tally, R, label):
    """no word of L(R) is a proper prefix of another word of L(R)"""
    w = z3.String("pf_w")
    zr = to_z3(R)
    res, m = common.check(tally, [z3.InRe(w, z3.Intersect(zr, z3.Concat(zr, z3.Plus(to_z3(ANYCH)))))], 60000,
                          label="policy: prefix-freeness of %s" % label, keep_sample=False)
    if res == "unknown":
        raise common.Inconclusive("unknown on prefix-freeness of %s" % label)
    return res == "unsat"


def classify(rule, tally):
    items = rule.core_items
    lazies = [i for i, (op, av) in enumerate(items) if op == sc.MIN_REPEAT]
    if lazies:
        # literal* , lazy class repeat , literal+   ->  shortest match
        if len(lazies) == 1:
            i = lazies[0]
            before, after = items[:i], items[i + 1:]
            sub = list(items[i][1][2])
            ok = (all(op == sc.LITERAL for op, _ in before) and after and all(op == sc.LITERAL for op, _ in after)
                  and len(sub) == 1 and rx._single_set(sub[0]) is not None and rule.guard is None)
            if ok:
                rule.policy = "shortest"
                rule.policy_why = "literal prefix, one lazy class repeat, literal suffix: fewest iterations first"
                return
        raise RxUnsupported("lazy pattern shape of rule %s not characterised" % rule.name)
    if prefix_free(tally, rule.rx, rule.name):
        rule.policy = "unique"
        rule.policy_why = "language is prefix-free (solver)"
        return
    if rule.guard is not None:
        raise RxUnsupported("guarded rule %s is not prefix-free" % rule.name)
    op, av = items[-1]
    if op == sc.MAX_REPEAT and av[1] == sc.MAXREPEAT and len(list(av[2])) == 1 and rx._single_set(list(av[2])[0]) is not None:
        lo = av[0]
        body = Set(rx._single_set(list(av[2])[0]))
        info = {"lazy": False}
        head = rx._seq(items[:-1], info)
        u = cat(head, *([body] * lo))
        if isinstance(u, Eps) or prefix_free(tally, u, rule.name + " (head)"):
            rule.policy = "longest"
            rule.policy_why = "prefix-free head (solver) followed by a trailing greedy class repeat"
            return
    # greedy class repeat followed by literals: backtracking stops at the LAST occurrence = longest
    if items and items[0][0] == sc.MAX_REPEAT and len(list(items[0][1][2])) == 1 and \
            rx._single_set(list(items[0][1][2])[0]) is not None and all(op == sc.LITERAL for op, _ in items[1:]) and items[1:]:
        rule.policy = "longest"
        rule.policy_why = "greedy class repeat then a literal: backtracking yields the last occurrence"
        return
    # a concatenation of single character classes, each possibly under a greedy repeat (no group, alternation or
    # lazy quantifier): Python's leftmost-greedy match is the longest match.  (Assumption of the trusted base:
    # checked exhaustively for all such patterns of <= 4 items over {a, b, [ab]} x {'', ?, *, +, {0,2}, {1,2}} on all
    # strings of length <= 6 -- 14.1 million cases, no counterexample; scratch experiment recorded in DESIGN.md 10.6.)
    def class_like(item):
        if rx._single_set(item) is not None:
            return True
        op, av = item
        if op == sc.MAX_REPEAT:
            sub = list(av[2])
            return len(sub) == 1 and rx._single_set(sub[0]) is not None
        return False
    if items and all(class_like(it) for it in items):
        rule.policy = "longest"
        rule.policy_why = "sequence of greedy single-class repeats: leftmost-greedy = longest (assumption, exhaustively tested on small instances)"
        return
    raise RxUnsupported("match policy of rule %s (%r) not characterised" % (rule.name, rule.pattern))


class State:
    def __init__(self, cls):
        self.cls = cls
        self.name = cls.__name__
        self.rules = []


def load_state(cls, tally):
    st = State(cls)
    if getattr(cls, "reflags", 0):
        raise RxUnsupported("lexer reflags")
    if getattr(cls, "literals", None):
        raise RxUnsupported("lexer literals")
    idx = 0
    ign = getattr(cls, "ignore", "")
    if ign:
        # sly skips any character of `ignore` BEFORE trying the rules: a synthetic first rule
        r = Rule("ignore_<ignore-chars>", idx, "[%s]" % ign, [], None)
        r.rx = Set([(ord(c), ord(c)) for c in ign])
        r.guard = None
        r.lazy = False
        r.core_items = []
        r.func = None
        r.ignored_type = True
        r.policy = "unique"
        r.policy_why = "single character of Lexer.ignore"
        r.synthetic = True
        rx.register_rx(r.rx)
        st.rules.append(r)
        idx += 1
    for name, value in cls._rules:
        pattern = value if isinstance(value, str) else value.pattern
        ttype = name[7:] if name.startswith("ignore_") else name
        func = cls._token_funcs.get(ttype)
        for items in split_alternatives(pattern):
            r = build_rule(name, idx, pattern, items)
            r.func = func
            r.ignored_type = ttype in cls._ignored_tokens
            rx.register_rx(r.rx)
            if r.guard is not None:
                rx.ALPHA.register(r.guard[1])
            st.rules.append(r)
            idx += 1
    st.error_func = getattr(cls, "error")
    return st


def classify_state(st, tally):
    for r in st.rules:
        if getattr(r, "synthetic", False):
            continue
        classify(r, tally)


# ------------------------------------------------------------------------------------
# step relation as regular languages over y = s MARK r
# ------------------------------------------------------------------------------------
_MEMO = {}


def memo(key, fn):
    if key not in _MEMO:
        _MEMO[key] = fn()
    return _MEMO[key]


def reset_memo():
    _MEMO.clear()


def match_re(rule):
    return memo(("match", id(rule)), lambda: _match_re(rule))


def anyocc_re(rule):
    return memo(("occ", id(rule)), lambda: _anyocc_re(rule))


def earlier_union(state, index):
    """union of anyocc over the rules before `index` (built incrementally, shared)"""
    def build():
        prev = [r for r in state.rules if r.index < index]
        if not prev:
            return None
        last = prev[-1]
        before = earlier_union(state, last.index)
        occ = anyocc_re(last)
        return occ if before is None else z3.Union(before, occ)
    return memo(("earlier", id(state), index), build)


def fires_re(state, rule):
    def build():
        m = match_re(rule)
        e = earlier_union(state, rule.index)
        return m if e is None else z3.Intersect(m, z3.Complement(e))
    return memo(("fires", id(state), id(rule)), build)


def _match_re(rule):
    """y = s MARK r  where s is the match rule would produce on x = s.r (ignoring earlier rules)"""
    R = to_z3(rule.rx)
    g = guard_re(rule.guard)
    base = z3.Concat(R, markre(), g)
    if rule.policy == "unique":
        return base
    if rule.policy == "longest":
        longer = z3.Concat(to_z3(ins_inner(rule.rx)), anyre())
        return z3.Intersect(base, z3.Complement(longer))
    if rule.policy == "shortest":
        shortest = z3.Intersect(R, z3.Complement(z3.Concat(R, z3.Plus(to_z3(ANYCH)))))
        return z3.Concat(shortest, markre(), g)
    raise ValueError(rule.policy)


def _anyocc_re(rule):
    """y (one marker anywhere) such that SOME prefix of x = y-without-marker matches the rule"""
    R = to_z3(rule.rx)
    a = z3.Concat(to_z3(ins(rule.rx)), guard_re(rule.guard))
    b = z3.Concat(R, guard_re_nonempty(rule.guard), markre(), anyre())
    return z3.Union(a, b)


def norule_re(state):
    """x (no marker) on which no rule matches any prefix -> error() is called"""
    parts = [z3.Concat(to_z3(r.rx), guard_re(r.guard)) for r in state.rules]
    u = parts[0] if len(parts) == 1 else z3.Union(*parts)
    return z3.Intersect(z3.Complement(u), z3.Plus(to_z3(ANYCH)))


# ------------------------------------------------------------------------------------
# effects of token functions and error(), by pysym on their source
# ------------------------------------------------------------------------------------
def function_effect(func, lexeme_re=None, is_error=False, init_type="T", extra_opts=None):
    """Runs the function body symbolically on a token whose value is an arbitrary string (of the
    rule's language).  Returns a list of path summaries:
    {outcome: 'token'|'none'|'raise', value: pysym value, pushes:[cls], pops:int, index_delta:..., exc: name}"""
    from vf.pysym import api
    from vf.pysym.interp import Interp, Scope, ModuleEnv
    from vf.pysym.explore import SymRaise, Return, Raise, Unsup
    from vf.pysym.values import SStr, SInt
    import ast as _ast
    src = textwrap.dedent(inspect.getsource(func))
    tree = _ast.parse(src)
    fdef = tree.body[0]
    fdef.decorator_list = []
    value = SStr(z3.String("lexeme"))
    assume = []
    if lexeme_re is not None:
        assume.append(z3.InRe(value.term, lexeme_re))
    else:
        assume.append(z3.Length(value.term) > 0)

    class Tok:
        def __init__(self):
            self.attrs = {"value": value, "type": init_type, "index": SInt(z3.Int("tok_index")), "lineno": SInt(z3.Int("tok_line"))}

        def pysym_getattr(self, ctx, interp, name):
            if name in self.attrs:
                return self.attrs[name]
            raise SymRaise(AttributeError(name))

        def pysym_setattr(self, ctx, interp, name, v):
            self.attrs[name] = v

    class Lex:
        def __init__(self):
            self.attrs = {"index": SInt(z3.Int("lex_index")), "lineno": SInt(z3.Int("lex_line"))}
            self.pushes = []
            self.pops = 0

        def pysym_getattr(self, ctx, interp, name):
            if name in self.attrs:
                return self.attrs[name]
            if name == "push_state":
                return _Meth(lambda a, k: self.pushes.append(a[0]))
            if name == "pop_state":
                return _Meth(lambda a, k: setattr(self, "pops", self.pops + 1))
            if name == "begin":
                return _Meth(lambda a, k: self.pushes.append(("begin", a[0])))
            raise SymRaise(AttributeError(name))

        def pysym_setattr(self, ctx, interp, name, v):
            self.attrs[name] = v

    class _Meth:
        def __init__(self, f):
            self.f = f

        def pysym_call(self, ctx, interp, args, kwargs):
            self.f(args, kwargs)
            return None

    real_globals = func.__globals__

    def entry(it):
        env = ModuleEnv(func.__module__)
        g = dict(real_globals)
        env.vars = g
        scope = Scope("module", g, g, owner=env)
        it.exec_body([fdef], scope)
        fn = g[fdef.name]
        tok, lex = Tok(), Lex()
        out = {"tok": tok, "lex": lex}
        try:
            res = it.call(fn, [lex, tok], {})
            out["res"] = ("return", res)
        except SymRaise as e:
            out["res"] = ("raise", type(e.exc).__name__ if not hasattr(e.exc, "pyclass") else e.exc.pyclass.name)
        return out
    run = api.run(entry, opts=dict({"float_mode": "real", "prune": True}, **(extra_opts or {})), assumptions=assume)
    paths = []
    for p in run.paths:
        if isinstance(p.outcome, Unsup):
            paths.append({"outcome": "unsupported", "reason": p.outcome.reason, "conds": p.conds})
            continue
        snap = p.outcome.value
        tok, lex = snap["tok"], snap["lex"]
        kind, v = snap["res"]
        d = {"conds": p.conds, "pushes": list(lex.pushes), "pops": lex.pops, "lexeme": value,
             "index_delta": z3.simplify(lex.attrs["index"].term - z3.Int("lex_index")) if hasattr(lex.attrs["index"], "term") else None}
        if kind == "raise":
            d["outcome"] = "raise"
            d["exc"] = v
        elif v is None:
            d["outcome"] = "none"
        elif v is tok:
            d["outcome"] = "token"
            d["value"] = tok.attrs["value"]
            d["type"] = tok.attrs["type"]
        else:
            d["outcome"] = "other"
            d["value"] = v
        paths.append(d)
    return paths, run


def cond_to_regex(conds, n_skip=0):
    """Path condition over the variable `lexeme` -> z3 regex over the lexeme (for folding into the single
    membership query).  Supports boolean combinations of InRe / Contains / prefix / suffix / equality with
    constants; anything else raises RxUnsupported."""
    lex = z3.String("lexeme")
    anyre_ = z3.Star(to_z3(ANYCH))

    def rec(c):
        if z3.is_true(c):
            return anyre_
        if z3.is_false(c):
            return z3.Empty(z3.ReSort(z3.StringSort()))
        if z3.is_not(c):
            return z3.Intersect(anyre_, z3.Complement(rec(c.arg(0))))
        if z3.is_and(c):
            parts = [rec(a) for a in c.children()]
            return parts[0] if len(parts) == 1 else z3.Intersect(*parts)
        if z3.is_or(c):
            parts = [rec(a) for a in c.children()]
            return parts[0] if len(parts) == 1 else z3.Union(*parts)
        k = c.decl().kind()
        if k == z3.Z3_OP_SEQ_IN_RE and c.arg(0).eq(lex):
            return c.arg(1)
        if k == z3.Z3_OP_SEQ_CONTAINS and c.arg(0).eq(lex) and z3.is_string_value(c.arg(1)):
            return z3.Concat(anyre_, z3.Re(c.arg(1)), anyre_)
        if k == z3.Z3_OP_SEQ_PREFIX and c.arg(1).eq(lex) and z3.is_string_value(c.arg(0)):
            return z3.Concat(z3.Re(c.arg(0)), anyre_)
        if k == z3.Z3_OP_SEQ_SUFFIX and c.arg(1).eq(lex) and z3.is_string_value(c.arg(0)):
            return z3.Concat(anyre_, z3.Re(c.arg(0)))
        if z3.is_eq(c):
            a, b = c.arg(0), c.arg(1)
            if a.eq(lex) and z3.is_string_value(b):
                return z3.Re(b)
            if b.eq(lex) and z3.is_string_value(a):
                return z3.Re(a)
        raise RxUnsupported("path condition of a token function is not a regular constraint on the lexeme: %s" % str(c)[:80])
    parts = [rec(c) for c in conds[n_skip:]]
    if not parts:
        return anyre_
    return parts[0] if len(parts) == 1 else z3.Intersect(*parts)
