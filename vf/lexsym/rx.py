"""Regular expressions as a small algebra: built from Python's own `re._parser` parse of the
live lexer patterns, lowered to z3 regular expressions, with the marker-insertion operator
Ins() used to state one-step lexer lemmas over a single string variable y = s MARK r.
"""
from __future__ import annotations

import re
import re._constants as sc
import re._parser as sp

import z3

MARK = 0xE000
MAXCP = 0x2FFFF


class RxUnsupported(Exception):
    pass


# ------------------------------------------------------------------------------------
# character sets as sorted disjoint ranges over [0, MAXCP] minus MARK
# ------------------------------------------------------------------------------------
def norm(ranges):
    rs = sorted((a, b) for a, b in ranges if a <= b)
    out = []
    for a, b in rs:
        if out and a <= out[-1][1] + 1:
            out[-1] = (out[-1][0], max(out[-1][1], b))
        else:
            out.append((a, b))
    # remove the marker
    res = []
    for a, b in out:
        a, b = max(a, 0), min(b, MAXCP)
        if a > b:
            continue
        if a <= MARK <= b:
            if a <= MARK - 1:
                res.append((a, MARK - 1))
            if MARK + 1 <= b:
                res.append((MARK + 1, b))
        else:
            res.append((a, b))
    return tuple(res)


UNIVERSE = norm([(0, MAXCP)])


def cs_union(a, b):
    return norm(list(a) + list(b))


def cs_complement(a):
    out = []
    prev = 0
    for x, y in norm(a):
        if x > prev:
            out.append((prev, x - 1))
        prev = y + 1
    if prev <= MAXCP:
        out.append((prev, MAXCP))
    return norm(out)


def cs_intersect(a, b):
    return cs_complement(cs_union(cs_complement(a), cs_complement(b)))


def cs_minus(a, b):
    return cs_intersect(a, cs_complement(b))


def cs_contains(a, cp):
    return any(x <= cp <= y for x, y in a)


_CAT_CACHE = {}


def category(name):
    """Code points matched by \\d, \\s, \\w for str patterns, enumerated from the live `re`
    module (not transcribed)."""
    if name in _CAT_CACHE:
        return _CAT_CACHE[name]
    pat = re.compile({"digit": r"\d", "space": r"\s", "word": r"\w"}[name])
    ranges = []
    start = None
    for cp in range(0, MAXCP + 1):
        if 0xD800 <= cp <= 0xDFFF:
            hit = False
        else:
            hit = pat.match(chr(cp)) is not None
        if hit and start is None:
            start = cp
        elif not hit and start is not None:
            ranges.append((start, cp - 1))
            start = None
    if start is not None:
        ranges.append((start, MAXCP))
    _CAT_CACHE[name] = norm(ranges)
    return _CAT_CACHE[name]


NEWLINE = norm([(10, 10)])
ASCII_IDCHAR = norm([(48, 57), (65, 90), (95, 95), (97, 122)])


# ------------------------------------------------------------------------------------
# regex algebra
# ------------------------------------------------------------------------------------
class Rx:
    pass


class Eps(Rx):
    def __repr__(self):
        return "eps"


class Set(Rx):
    def __init__(self, ranges):
        self.ranges = norm(ranges)

    def __repr__(self):
        return "Set(%s)" % (list(self.ranges[:4]),)


class Cat(Rx):
    def __init__(self, parts):
        self.parts = list(parts)


class Alt(Rx):
    def __init__(self, parts):
        self.parts = list(parts)


class Star(Rx):
    def __init__(self, x):
        self.x = x


class Plus(Rx):
    def __init__(self, x):
        self.x = x


class Opt(Rx):
    def __init__(self, x):
        self.x = x


def lit(s):
    return Cat([Set([(ord(c), ord(c))]) for c in s]) if len(s) != 1 else Set([(ord(s), ord(s))])


def cat(*parts):
    flat = []
    for p in parts:
        if isinstance(p, Eps):
            continue
        if isinstance(p, Cat):
            flat.extend(p.parts)
        else:
            flat.append(p)
    if not flat:
        return Eps()
    if len(flat) == 1:
        return flat[0]
    return Cat(flat)


def alt(*parts):
    flat = []
    for p in parts:
        if isinstance(p, Alt):
            flat.extend(p.parts)
        else:
            flat.append(p)
    if len(flat) == 1:
        return flat[0]
    return Alt(flat)


ANYCH = Set(UNIVERSE)


def anystar():
    return Star(ANYCH)


# ---- lowering to z3 -----------------------------------------------------------------
_SORT = None


def resort():
    global _SORT
    if _SORT is None:
        _SORT = z3.ReSort(z3.StringSort())
    return _SORT


class Alphabet:
    """Minterm abstraction of the non-ASCII part of the alphabet.

    All character sets used by the lexer rules and by the reference are registered first; the code
    points above 127 are partitioned by their membership signature in those sets, and every block is
    represented in z3 by ONE character of the block.  Every language in a query is built from the
    registered sets by regular operations, hence is invariant under replacing a character by another
    of the same block: a query is satisfiable over all of Unicode iff it is over ASCII + representatives.
    ASCII characters are kept as they are."""

    def __init__(self):
        self.sets = []
        self.frozen = False
        self.blocks = None     # list of (ranges, representative)

    def register(self, ranges):
        ranges = norm(ranges)
        if self.frozen:
            if not self.aligned(ranges):
                raise RxUnsupported("character set registered after the alphabet was frozen: %r" % (ranges[:3],))
            return
        hi = tuple((max(a, 128), b) for a, b in ranges if b >= 128)
        if hi and hi not in self.sets:
            self.sets.append(hi)

    def freeze(self):
        # sweep over boundaries of all registered sets above 127
        cuts = {128, MAXCP + 1, MARK, MARK + 1, 0xD800, 0xE000}
        for s in self.sets:
            for a, b in s:
                cuts.add(a)
                cuts.add(b + 1)
        cuts = sorted(c for c in cuts if 128 <= c <= MAXCP + 1)
        sig_blocks = {}
        for lo, hi in zip(cuts, cuts[1:]):
            if lo == MARK or 0xD800 <= lo <= 0xDFFF:
                continue
            sig = tuple(cs_contains(s, lo) for s in self.sets)
            sig_blocks.setdefault(sig, []).append((lo, hi - 1))
        self.blocks = [(norm(rs), rs[0][0]) for sig, rs in sorted(sig_blocks.items(), key=lambda kv: kv[1][0])]
        self.frozen = True

    def aligned(self, ranges):
        for rs, rep in self.blocks:
            inside = [cs_contains(ranges, a) for a, b in rs] + [cs_contains(ranges, b) for a, b in rs]
            if any(inside) and not all(inside):
                return False
            if all(inside):
                # fully inside? check by complement emptiness
                if cs_minus(rs, ranges):
                    return False
        return True

    def lower(self, ranges):
        """ranges -> ranges over ASCII + representatives"""
        ranges = norm(ranges)
        if not self.frozen:
            raise RxUnsupported("alphabet not frozen")
        if not self.aligned(ranges):
            raise RxUnsupported("character set not aligned with the alphabet blocks: %r" % (ranges[:3],))
        out = [(a, min(b, 127)) for a, b in ranges if a <= 127]
        for rs, rep in self.blocks:
            if cs_contains(ranges, rep):
                out.append((rep, rep))
        return norm(out)

    def describe(self):
        return [{"representative": "U+%04X" % rep, "block_ranges": len(rs), "size": sum(b - a + 1 for a, b in rs)}
                for rs, rep in self.blocks]


ALPHA = Alphabet()


def z3_set(ranges):
    ranges = ALPHA.lower(ranges)
    if not ranges:
        return z3.Empty(resort())
    parts = [z3.Range(chr(a), chr(b)) if a != b else z3.Re(z3.StringVal(chr(a))) for a, b in ranges]
    return parts[0] if len(parts) == 1 else z3.Union(*parts)


def register_rx(r):
    if isinstance(r, Set):
        ALPHA.register(r.ranges)
    elif isinstance(r, (Cat, Alt)):
        for p in r.parts:
            register_rx(p)
    elif isinstance(r, (Star, Plus, Opt)):
        register_rx(r.x)


def to_z3(r):
    if isinstance(r, Eps):
        return z3.Re(z3.StringVal(""))
    if isinstance(r, Set):
        return z3_set(r.ranges)
    if isinstance(r, Cat):
        # merge runs of single characters into string literals
        parts = []
        buf = ""
        for p in r.parts:
            if isinstance(p, Set) and len(p.ranges) == 1 and p.ranges[0][0] == p.ranges[0][1]:
                buf += chr(p.ranges[0][0])
            else:
                if buf:
                    parts.append(z3.Re(z3.StringVal(buf)))
                    buf = ""
                parts.append(to_z3(p))
        if buf:
            parts.append(z3.Re(z3.StringVal(buf)))
        return parts[0] if len(parts) == 1 else z3.Concat(*parts)
    if isinstance(r, Alt):
        parts = [to_z3(p) for p in r.parts]
        return parts[0] if len(parts) == 1 else z3.Union(*parts)
    if isinstance(r, Star):
        return z3.Star(to_z3(r.x))
    if isinstance(r, Plus):
        return z3.Plus(to_z3(r.x))
    if isinstance(r, Opt):
        return z3.Option(to_z3(r.x))
    if isinstance(r, Z3Rx):
        return r.term
    raise TypeError(r)


class Z3Rx(Rx):
    """an opaque z3 regex (complements / intersections) usable inside concatenations"""

    def __init__(self, term):
        self.term = term


MARKRE = Set(())  # placeholder, replaced below


def mark():
    return Z3Rx(z3.Re(z3.StringVal(chr(MARK))))


def nullable(r):
    if isinstance(r, Eps):
        return True
    if isinstance(r, Set):
        return False
    if isinstance(r, Cat):
        return all(nullable(p) for p in r.parts)
    if isinstance(r, Alt):
        return any(nullable(p) for p in r.parts)
    if isinstance(r, (Star, Opt)):
        return True
    if isinstance(r, Plus):
        return nullable(r.x)
    raise TypeError(r)


def ins(r):
    """{ a MARK b : a.b in L(r) }  -- the marker inserted at any position of a word of r."""
    m = mark()
    if isinstance(r, Eps):
        return m
    if isinstance(r, Set):
        return alt(cat(m, r), cat(r, m))
    if isinstance(r, Cat):
        outs = []
        for i, p in enumerate(r.parts):
            outs.append(cat(*(r.parts[:i] + [ins(p)] + r.parts[i + 1:])))
        return alt(*outs)
    if isinstance(r, Alt):
        return alt(*[ins(p) for p in r.parts])
    if isinstance(r, Star):
        return alt(m, cat(Star(r.x), ins(r.x), Star(r.x)))
    if isinstance(r, Plus):
        return cat(Star(r.x), ins(r.x), Star(r.x))
    if isinstance(r, Opt):
        return alt(m, ins(r.x))
    raise TypeError(r)


def ins_inner(r):
    """{ a MARK b : a.b in L(r), b != '' }  -- marker strictly before the end (a longer match exists)."""
    anyc = to_z3(ANYCH)
    shape = z3.Concat(z3.Star(anyc), z3.Re(z3.StringVal(chr(MARK))), z3.Plus(anyc))
    return Z3Rx(z3.Intersect(to_z3(ins(r)), shape))


def nonempty(r):
    """L(r) minus the empty word"""
    if not nullable(r):
        return r
    return Z3Rx(z3.Intersect(to_z3(r), z3.Plus(to_z3(ANYCH))))


# ------------------------------------------------------------------------------------
# from Python's sre parse tree
# ------------------------------------------------------------------------------------
class Parsed:
    """regex + optional right-context guard + match policy info"""

    def __init__(self, rx, guard, lazy, shape):
        self.rx = rx
        self.guard = guard      # None | ("notin", ranges)  next char (if any) must not be in ranges
        self.lazy = lazy        # contains a lazy repeat
        self.shape = shape      # list describing the top-level sequence (for policy classification)


def from_pattern(pattern, flags=0):
    if flags:
        raise RxUnsupported("regex flags")
    tree = sp.parse(pattern)
    items = list(tree)
    guard = None
    # trailing zero-width assertions
    while items and items[-1][0] in (sc.AT, sc.ASSERT_NOT, sc.ASSERT):
        op, av = items.pop()
        g = _guard(op, av, items)
        if guard is not None:
            raise RxUnsupported("several trailing assertions")
        guard = g
    info = {"lazy": False}
    rx = _seq(items, info)
    return Parsed(rx, guard, info["lazy"], items)


def _guard(op, av, before):
    if op == sc.AT:
        if av == sc.AT_BOUNDARY:
            # \b after a word character: next char is not a word character (or end of text)
            if not before:
                raise RxUnsupported("\\b at pattern start")
            last = _last_set(before)
            if last is None or cs_minus(last, category("word")):
                raise RxUnsupported("\\b not preceded by a word character")
            return ("notin", category("word"))
        raise RxUnsupported("anchor %s" % av)
    if op in (sc.ASSERT_NOT, sc.ASSERT):
        direction, sub = av
        if direction != 1:
            raise RxUnsupported("lookbehind")
        sub = list(sub)
        if len(sub) != 1:
            raise RxUnsupported("lookahead of more than one character")
        s = _single_set(sub[0])
        if s is None:
            raise RxUnsupported("lookahead is not a character class")
        if op == sc.ASSERT_NOT:
            return ("notin", s)
        return ("notin", cs_complement(s))   # (?=[c]) : next char must exist -- approximated below
    raise RxUnsupported(str(op))


def _last_set(items):
    """set of characters a match of the item sequence can END with (None if unknown / possibly empty)"""
    if not items:
        return None
    op, av = items[-1]
    if op in (sc.MAX_REPEAT, sc.MIN_REPEAT):
        lo, hi, sub = av
        sub = list(sub)
        if lo == 0:
            return None                     # may match nothing: the last character is whatever precedes it
        if len(sub) == 1:
            return _single_set(sub[0])
        return _last_set(sub)
    if op == sc.SUBPATTERN:
        return _last_set(list(av[3]))
    if op == sc.BRANCH:
        acc = ()
        for b in av[1]:
            ls = _last_set(list(b))
            if ls is None:
                return None
            acc = cs_union(acc, ls)
        return norm(acc)
    return _single_set(items[-1])


def _single_set(item):
    op, av = item
    if op == sc.LITERAL:
        return norm([(av, av)])
    if op == sc.NOT_LITERAL:
        return cs_complement(norm([(av, av)]))
    if op == sc.ANY:
        return cs_complement(NEWLINE)
    if op == sc.IN:
        neg = False
        acc = ()
        for o, a in av:
            if o == sc.NEGATE:
                neg = True
            elif o == sc.LITERAL:
                acc = cs_union(acc, [(a, a)])
            elif o == sc.RANGE:
                acc = cs_union(acc, [a])
            elif o == sc.CATEGORY:
                acc = cs_union(acc, _category(a))
            else:
                raise RxUnsupported("class item %s" % o)
        return cs_complement(acc) if neg else norm(acc)
    return None


def _category(c):
    m = {sc.CATEGORY_DIGIT: ("digit", False), sc.CATEGORY_NOT_DIGIT: ("digit", True),
         sc.CATEGORY_SPACE: ("space", False), sc.CATEGORY_NOT_SPACE: ("space", True),
         sc.CATEGORY_WORD: ("word", False), sc.CATEGORY_NOT_WORD: ("word", True)}
    if c not in m:
        raise RxUnsupported("category %s" % c)
    name, neg = m[c]
    return cs_complement(category(name)) if neg else category(name)


def _seq(items, info):
    return cat(*[_item(it, info) for it in items])


def _item(item, info):
    op, av = item
    s = _single_set(item)
    if s is not None:
        return Set(s)
    if op in (sc.MAX_REPEAT, sc.MIN_REPEAT):
        lo, hi, sub = av
        if op == sc.MIN_REPEAT:
            info["lazy"] = True
        body = _seq(list(sub), info)
        if hi == sc.MAXREPEAT:
            if lo == 0:
                return Star(body)
            if lo == 1:
                return Plus(body)
            if lo <= 4:
                return cat(*([body] * (lo - 1) + [Plus(body)]))
            raise RxUnsupported("repeat {%d,}" % lo)
        if hi <= 6:
            parts = [body] * lo + [Opt(body)] * (hi - lo)
            return cat(*parts)
        raise RxUnsupported("bounded repeat {%d,%d}" % (lo, hi))
    if op == sc.SUBPATTERN:
        group, add, dele, sub = av
        if add or dele:
            raise RxUnsupported("inline flags")
        return _seq(list(sub), info)
    if op == sc.BRANCH:
        _, branches = av
        return alt(*[_seq(list(b), info) for b in branches])
    if op in (sc.AT, sc.ASSERT, sc.ASSERT_NOT):
        raise RxUnsupported("zero-width assertion that is not at the end of the rule")
    raise RxUnsupported("regex construct %s" % op)
