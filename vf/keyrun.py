"""Symbolic runs of generated functions of the splitter family (shared by C01, C09, C10,
C12, C15): typed symbolic splitter values, condition fields, optional extra kwargs."""
from __future__ import annotations

import z3

from vf import harness
from vf.ref import dsl
from vf.pysym.values import SInt, SReal, SStr


def splitter_value(name, sort, prefix="spl_"):
    if sort == "str":
        return SStr(z3.String(prefix + name))
    if sort == "int":
        return SInt(z3.Int(prefix + name))
    if sort == "float":
        return SReal(z3.Real(prefix + name))
    if sort == "true":
        return True
    if sort == "false":
        return False
    if sort == "none":
        return None
    raise ValueError(sort)


def typed_value(v, sort):
    """a model value of an exact-real variable that stands for a Python float must be replayed as a float"""
    if sort == "float" and isinstance(v, int) and not isinstance(v, bool):
        return float(v)
    return v


class KeyedRun:
    def fields(self, model, kwargs=None):
        kw = self.kwargs if kwargs is None else kwargs
        out = {}
        for k, v in kw.items():
            val = harness.model_value(model, v)
            out[k] = typed_value(val, (self.typing or {}).get(k))
        return out

    def __init__(self, prog, typing, text, gen, kwargs, env, spl, run):
        self.prog = prog
        self.typing = typing
        self.text = text
        self.gen = gen
        self.kwargs = kwargs
        self.env = env      # condition fields
        self.spl = spl      # splitter values
        self.run = run


def make_inputs(prog, typing, numeric="real", prefix=""):
    sorts, conflicts = dsl.infer_field_sorts(prog)
    env = {n: harness.sym_value(prefix + "fld_" + n, s, numeric) for n, s in sorts.items()}
    spl = {}
    for sp in (prog.splitters or ()):
        if sp in env:
            spl[sp] = env[sp]
        else:
            spl[sp] = splitter_value(sp, typing.get(sp, "str"), prefix + "spl_")
    kwargs = dict(env)
    kwargs.update(spl)
    return env, spl, kwargs


def keyed_run(prog, typing, extra_kwargs=None, stub_choice=True, opts=None, text=None, gen=None,
              drop=None, numeric="real", same_namespace=False, gen_text=None, order=None):
    text = text or dsl.program_text(prog)
    if gen is None and gen_text is None:
        gen = harness.real_generate(text)
        if gen.error or gen.text is None:
            return KeyedRun(prog, typing, text, gen, None, None, None, None)
    env, spl, kwargs = make_inputs(prog, typing, numeric)
    if extra_kwargs:
        kwargs.update(extra_kwargs)
    if drop:
        kwargs.pop(drop, None)
    if order == "reversed":
        kwargs = dict(reversed(list(kwargs.items())))
    run = harness.run_generated(gen_text or gen.text, prog.name if gen is None else gen.fn_name, kwargs,
                                stub_choice=stub_choice, opts=opts, same_namespace=same_namespace)
    return KeyedRun(prog, typing, text, gen, kwargs, env, spl, run)
