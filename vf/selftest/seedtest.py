from __future__ import annotations
import json, os, shutil, subprocess, sys, tempfile, time

VERIF = os.path.dirname(os.path.dirname(os.path.dirname(os.path.abspath(__file__))))


def sh(cmd, **kw):
    return subprocess.run(cmd, capture_output=True, text=True, **kw)


def main():
    args = [a for a in sys.argv[1:] if not a.startswith("-")]
    all_checks = "--all" in sys.argv
    skip_tests = "--no-tests" in sys.argv
    base = os.path.join(VERIF, "seeded")
    ids = args or sorted(os.listdir(base))
    rows = []
    for sid in ids:
        d = os.path.join(base, sid)
        meta = json.load(open(os.path.join(d, "meta.json")))
        root = tempfile.mkdtemp(prefix="pyab_seed_")
        try:
            for sub in ("src", "tests"):
                shutil.copytree(os.path.join("/repo", sub), os.path.join(root, sub))
            clean = tempfile.mkdtemp(prefix="pyab_clean_")
            shutil.copytree("/repo/src", os.path.join(clean, "src"))
            p = sh(["patch", "-p1", "-s", "-i", os.path.join(d, "patch.diff")], cwd=root)
            if p.returncode != 0:
                rows.append((sid, "patch", "DOES NOT APPLY: " + (p.stdout + p.stderr)[-200:]))
                continue
            if not skip_tests:
                env = dict(os.environ, PYTHONPATH=os.path.join(root, "src"))
                t = sh(["/venv/bin/python", "-m", "pytest", "-q", "-p", "no:cacheprovider", "tests"], cwd=root, env=env)
                rows.append((sid, "tests", (t.stdout.strip().splitlines() or ["?"])[-1]))
            demo = os.path.join(d, meta.get("demo", "demo.py"))
            a = sh(["/venv/bin/python", demo, root], timeout=1200)
            b = sh(["/venv/bin/python", demo, clean], timeout=1200)
            rows.append((sid, "demo", "with change: exit %d, without: exit %d" % (a.returncode, b.returncode)))
            shutil.rmtree(clean, ignore_errors=True)
            props = meta["breaks"] if isinstance(meta["breaks"], list) else [meta["breaks"]]
            checks = props + ([c for c in meta.get("also_run", [])])
            if all_checks:
                checks = props + [c[:-3] for c in sorted(os.listdir(os.path.join(VERIF, "vf", "props")))
                                  if c.startswith("C") and c.endswith(".py") and c[:-3] not in props]
            for prop in checks:
                env = dict(os.environ, PYAB_REPO=root, VERIF_EVIDENCE_DIR=os.path.join(root, "ev"))
                t0 = time.time()
                c = sh([os.path.join(VERIF, "check"), prop], env=env)
                v = [l for l in c.stdout.splitlines() if l.startswith("VIOLATION")]
                first = ""
                lines = c.stdout.splitlines()
                for i, l in enumerate(lines):
                    if l.startswith("VIOLATION") and i + 1 < len(lines):
                        first = lines[i + 1].strip()[:160]
                        break
                if c.returncode not in (0, 1):
                    first = " / ".join(l for l in lines if l.startswith(("INCONCLUSIVE", "HARNESS")))[:240]
                mark = "TARGET" if prop in props else "other"
                rows.append((sid, "%s %s" % (prop, mark), "exit %d, %d violation lines, %.0fs %s" % (
                    c.returncode, len(v), time.time() - t0, first)))
        finally:
            shutil.rmtree(root, ignore_errors=True)
        for r in rows:
            if r[0] == sid:
                print(*r)
        sys.stdout.flush()


if __name__ == "__main__":
    main()
