from __future__ import annotations
import os, shutil, subprocess, sys, tempfile, time
from vf.selftest.mutants import MUTANTS

VERIF = os.path.dirname(os.path.dirname(os.path.dirname(os.path.abspath(__file__))))


def apply_edits(m, root):
    for e in m["edits"]:
        path = os.path.join(root, e[0])
        s = open(path).read()
        if e[1] not in s:
            return False
        s = s.replace(e[1], e[2]) if len(e) > 3 and e[3] == "all" else s.replace(e[1], e[2], 1)
        open(path, "w").write(s)
    return True


def apply(m, root):
    if "edits" in m:
        return apply_edits(m, root)
    path = os.path.join(root, m["file"])
    s = open(path).read()
    if m.get("special") == "checksum_before":
        old = "            code_holder = {}\n"
        new = "            code_holder = {}\n            self._checksum = new_checksum\n"
        assert old in s
        s = s.replace(old, new, 1)
    elif m.get("special") == "comment_before_string":
        i = s.index('    @_(r"\\\".*?')
        j = s.index("    # block comment")
        k = s.index("    # regular comments")
        block = s[j:k]
        s = s[:i] + block + s[i:j] + s[k:]
    else:
        if m["old"] is None or m["old"] not in s:
            return False
        s = s.replace(m["old"], m["new"], 1)
    open(path, "w").write(s)
    return True


def main():
    args = [a for a in sys.argv[1:] if not a.startswith("-")]
    run_tests = "--tests" in sys.argv
    all_props = "--all" in sys.argv
    benign = "--benign" in sys.argv
    pool = MUTANTS
    if benign:
        from vf.selftest.benign import BENIGN
        pool = BENIGN
    sel = [m for m in pool if not args or m["id"] in args]
    summary = []
    for m in sel:
        root = tempfile.mkdtemp(prefix="pyab_mut_")
        try:
            shutil.copytree("/repo/src", os.path.join(root, "src"))
            if run_tests:
                shutil.copytree("/repo/tests", os.path.join(root, "tests"))
            if not apply(m, root):
                summary.append((m["id"], "-", "NOT APPLICABLE (pattern missing)"))
                continue
            if run_tests:
                env = dict(os.environ, PYTHONPATH=os.path.join(root, "src"))
                p = subprocess.run(["/venv/bin/python", "-m", "pytest", "-q", "-x", "-p", "no:cacheprovider", "tests"],
                                   cwd=root, env=env, capture_output=True, text=True)
                summary.append((m["id"], "tests", p.stdout.strip().splitlines()[-1] if p.stdout.strip() else "?"))
            for prop in m["props"]:
                if not os.path.exists(os.path.join(VERIF, "vf", "props", prop + ".py")):
                    summary.append((m["id"], prop, "no check yet"))
                    continue
                env = dict(os.environ, PYAB_REPO=root, VERIF_EVIDENCE_DIR=os.path.join(root, "ev"))
                t0 = time.time()
                p = subprocess.run([os.path.join(VERIF, "check"), prop], env=env, capture_output=True, text=True)
                viol = [l for l in p.stdout.splitlines() if l.startswith("VIOLATION")]
                detail = ""
                if p.returncode != (0 if benign else 1):
                    detail = " | " + " / ".join(p.stdout.strip().splitlines()[-3:])[:300]
                summary.append((m["id"], prop, "exit %d, %d violation lines, %.0fs%s" % (
                    p.returncode, len(viol), time.time() - t0, detail)))
        finally:
            shutil.rmtree(root, ignore_errors=True)
        print(summary[-1] if not benign else [x for x in summary if x[0] == m["id"]])
        sys.stdout.flush()
    print("\n== summary")
    for s in summary:
        if benign:
            flag = "OK  " if s[2].startswith("exit 0") else ("    " if s[1] in ("tests", "-") else
                                                             ("INCONC" if s[2].startswith("exit 2") else "ALARM"))
        else:
            flag = "OK  " if s[2].startswith("exit 1") else ("    " if s[1] in ("tests", "-") else "MISS")
        print(flag, *s)


if __name__ == "__main__":
    main()
