"""Reverts of the repairs and further realistic regressions (see mutants.py)."""
B = "src/pyab_experiment/binning/binning.py"
G = "src/pyab_experiment/codegen/python/python_generator.py"
L = "src/pyab_experiment/language/lexer.py"
Y = "src/pyab_experiment/language/grammar.py"
E = "src/pyab_experiment/experiment_evaluator.py"
T = "src/pyab_experiment/data_structures/syntax_tree.py"
W = "src/pyab_experiment/utils/wraper_functions.py"

MORE = [
    dict(id="term_no_escape", props=["C13", "C05"], file=G,
         old='''            case str():
                return repr(term)''',
         new='''            case str():
                return f"'{term}'"'''),
    dict(id="salt_no_escape", props=["C13", "C15"], file=G,
         old='''repr(self._experiment_ast.salt)''',
         new='''f"'{self._experiment_ast.salt}'"'''),
    dict(id="salt_dq_escape_only", props=["C13", "C05"], file=G,
         old='''repr(self._experiment_ast.salt)''',
         new=r"""'"' + self._experiment_ast.salt.replace('"', '\\"') + '"'"""),
    dict(id="lex_error_skip", props=["C06"], file=L,
         old='''        raise LexError(
            "Illegal character %r at index %d" % (t.value[0], self.index),
            t.value,
            self.index,
        )''',
         new='''        print("Illegal character '%s'" % t.value[0])
        self.index += 1'''),
    dict(id="no_parser_error", props=["C06"], file=Y, old="    def error(self, token):", new="    def _unused_error(self, token):"),
    dict(id="parser_error_rbrace", props=["C06"], file=Y,
         old='''        if token is None:
            raise YaccError("Syntax error: unexpected end of input")
''',
         new='''        if token is None:
            raise YaccError("Syntax error: unexpected end of input")
        if token.type == "RBRACE":
            return None
'''),
    dict(id="no_unterminated_check", props=["C06"], file=W, old="if type(lexer) is not ExperimentLexer:", new="if False:"),
    dict(id="kw_in_no_boundary", props=["C07", "C06"], file=L, old=r'''KW_IN = r"in\b"''', new=r'''KW_IN = r"in"'''),
    dict(id="kw_or_no_boundary", props=["C07"], file=L, old=r'''KW_OR = r"or\b"''', new=r'''KW_OR = r"or"'''),
    dict(id="greedy_comment", props=["C08"], file=L, old=r'''@_(r".*?\*/")''', new=r'''@_(r".*\*/")'''),
    dict(id="ge_after_gt", props=["C02", "C07"], file=L,
         old='''    KW_GE = r">="
    KW_LE = r"<="
    KW_GT = r">"
    KW_LT = r"<"''',
         new='''    KW_GT = r">"
    KW_LT = r"<"
    KW_GE = r">="
    KW_LE = r"<="'''),
    dict(id="string_greedy", props=["C08", "C07", "C05"], file=L,
         old=r'''@_(r"\".*?\"|\'.*?\'")''', new=r'''@_(r"\".*\"|\'.*\'")'''),
    dict(id="comment_before_string", props=[], file=L, old=None, new=None, special="comment_before_string"),
    dict(id="int_as_float", props=["C05"], file=L, old="t.value = int(t.value)", new="t.value = float(t.value)"),
    dict(id="extra_production", props=["C06"], file=Y,
         old='''    @_("ID")
    def term(self, p):
        return Identifier(name=p.ID)''',
         new='''    @_("ID")
    def term(self, p):
        return Identifier(name=p.ID)

    @_("MINUS ID")
    def term(self, p):
        return Identifier(name=p.ID)'''),
    dict(id="drop_weight_float", props=["C07"], file=Y,
         old='''    @_("NON_NEG_FLOAT")
    def weight(self, p):
        return p.NON_NEG_FLOAT
''', new=""),
    dict(id="no_smart_union", props=["C05"], file=T,
         old='''    class Config:
        # keep a literal's own type: without this the union is tried left to
        # right and "02134" or 9007199254740993 are coerced to float
        smart_union = True
''', new=""),
    dict(id="group_no_smart_union", props=["C05"], file=T,
         old='''    group_weight: Union[NonNegativeFloat, NonNegativeInt]

    class Config:
        smart_union = True
''', new='''    group_weight: Union[NonNegativeFloat, NonNegativeInt]
'''),
    dict(id="dup_params_again", props=["C07"], file=G,
         old='''        fn_params = self.local_vars + [
            id for id in self.conditional_ids if id not in self._local_vars
        ]''',
         new='''        fn_params = self.local_vars + self.conditional_ids'''),
    dict(id="not_lt_to_ge", props=["C02"], file=G,
         old='''                if (
                    predicate.boolean_operator == BooleanOperatorEnum.NOT
                ):  # special case
                    return f"({operator} {l_pred})"''',
         new='''                if (
                    predicate.boolean_operator == BooleanOperatorEnum.NOT
                ):  # special case
                    inner = predicate.left_predicate
                    if isinstance(inner, TerminalPredicate) and inner.logical_operator == LogicalOperatorEnum.LT:
                        # not (a < b)  ==  a >= b
                        return f"({self._generate_term(inner.left_term)} >= {self._generate_term(inner.right_term)})"
                    return f"({operator} {l_pred})"'''),
    dict(id="tuple_str_again", props=["C07", "C05"], file=G, old="            case tuple() | list():", new="            case frozenset():"),
    dict(id="unroutable_runtime_error", props=["C02"], file=G,
         old='return f"{self.indent()}raise ExperimentConditionalFailedError()"',
         new='return f"{self.indent()}raise RuntimeError(\'no branch matched\')"'),
    dict(id="unroutable_returns_none", props=["C02", "C07"], file=G,
         old='return f"{self.indent()}raise ExperimentConditionalFailedError()"',
         new='return f"{self.indent()}return None"'),
    dict(id="parse_none_not_error", props=[], file=E,
         old="            if ast is None:\n                raise ParseError()\n",
         new="            if ast is None:\n                return\n"),
    dict(id="tuple_truncate_8", props=["C02"], file=G,
         old='members = ", ".join(str(self._generate_term(t)) for t in term)',
         new='members = ", ".join(str(self._generate_term(t)) for t in (term if len(term) <= 8 else term[:8]))'),
    dict(id="many_groups_unweighted", props=["C03"], file=G,
         old="        weight_list = str([group.group_weight for group in group_statement])\n",
         new="        weight_list = str([group.group_weight for group in group_statement] if len(group_statement) < 20 else None)\n"),
]
