"""Realistic regressions used to test our own detection (development-time only).
Each is a textual replacement in one file of the repository copy; all are meant to keep the
repository's 59 tests green."""

B = "src/pyab_experiment/binning/binning.py"
G = "src/pyab_experiment/codegen/python/python_generator.py"
L = "src/pyab_experiment/language/lexer.py"
Y = "src/pyab_experiment/language/grammar.py"
E = "src/pyab_experiment/experiment_evaluator.py"
S = "src/pyab_experiment/utils/stats.py"
T = "src/pyab_experiment/data_structures/syntax_tree.py"
W = "src/pyab_experiment/utils/wraper_functions.py"

MUTANTS = [
    dict(id="last8", props=["C12"], file=B, old="digest[:8]", new="digest[-8:]"),
    dict(id="sha1", props=["C12"], file=B, old="hashlib.md5(", new="hashlib.sha1("),
    dict(id="salt_appended", props=["C12"], file=G,
         old='composite_key = f"{salt_def}+{fields_def}"', new='composite_key = f"{fields_def}+{salt_def}"'),
    dict(id="decl_order", props=["C12", "C09"], file=G,
         old="fields_def = f\"''.join(map(str, [{', '.join(self.local_vars)}]))\"",
         new="fields_def = f\"''.join(map(str, [{', '.join(self._experiment_ast.splitting_fields)}]))\""),
    dict(id="repr_key", props=["C12", "C15"], file=G, old="fields_def = f\"''.join(map(str, [", new="fields_def = f\"''.join(map(repr, ["),
    dict(id="sep_key", props=["C12"], file=G, old="fields_def = f\"''.join(", new="fields_def = f\"'|'.join("),
    dict(id="div_ffffffff", props=["C12", "C03"], file=B, old="max_int = 0x100000000", new="max_int = 0xFFFFFFFF"),
    dict(id="hash_builtin", props=["C01", "C12"], file=B,
         old='digest = hashlib.md5(input_string.encode("utf-8")).hexdigest()',
         new='digest = "%032x" % (hash(input_string) & ((1 << 128) - 1))'),
    dict(id="unsorted_set", props=["C01", "C12"], file=G, old="return sorted(self._local_vars)",
         new="return list(self._local_vars)"),
    dict(id="name_in_key", props=["C09", "C12"], file=G,
         old='composite_key = f"{salt_def}+{fields_def}"',
         new='composite_key = f"\'{self._experiment_ast.id}\'+{salt_def}+{fields_def}"'),
    dict(id="gt_ge_swap", props=["C02"], file=G, old='''            case LogicalOperatorEnum.GT:
                return ">"''', new='''            case LogicalOperatorEnum.GT:
                return ">="'''),
    dict(id="and_or_swap", props=["C02"], file=G, old='''            case BooleanOperatorEnum.AND:
                return "and"''', new='''            case BooleanOperatorEnum.AND:
                return "or"'''),
    dict(id="in_notin_swap", props=["C02"], file=G, old='''            case LogicalOperatorEnum.NOT_IN:
                return "not in"''', new='''            case LogicalOperatorEnum.NOT_IN:
                return "in"'''),
    dict(id="elif_if", props=["C02"], file=G, old='f"{self.indent()}elif {predicate}: "',
         new='f"{self.indent()}if {predicate}: "'),
    dict(id="prec_swap", props=["C02"], file=Y, old='''        ("left", KW_OR),
        ("left", KW_AND),''', new='''        ("left", KW_AND),
        ("left", KW_OR),'''),
    dict(id="no_parens", props=["C02"], file=G, old='return f"({l_pred} {operator} {r_pred})"',
         new='return f"{l_pred} {operator} {r_pred}"'),
    dict(id="not_no_parens", props=[], note="equivalent: Python's `not` already binds tighter than and/or", file=G, old='return f"({operator} {l_pred})"',
         new='return f"{operator} {l_pred}"'),
    dict(id="no_trailing_raise", props=["C02"], file=G,
         old='variant_fn_body += f"{self._newline}{self._generate_exception()}{self._newline}"',
         new='variant_fn_body += f"{self._newline}"'),
    dict(id="ne_eq", props=["C02"], file=Y, old='''    @_("KW_NE")
    def logical_op(self, p):
        return LogicalOperatorEnum.NE''', new='''    @_("KW_NE")
    def logical_op(self, p):
        return LogicalOperatorEnum.EQ'''),
    dict(id="bisect_left", props=["C03", "C16"], file=B, old="from bisect import bisect\n",
         new="from bisect import bisect_left as bisect\n"),
    dict(id="hi_n", props=[], note="equivalent: u < 1 and a finite total make index n unreachable (confirmed by the solver)", file=B, old="hi = n - 1", new="hi = n"),
    dict(id="total_ge", props=["C16"], file=B, old="if total <= 0.0:", new="if total < 0.0:"),
    dict(id="inplace_accumulate", props=["C16"], file=B, old="cum_weights = list(accumulate(weights))",
         new="""for _i in range(1, len(weights)):
            weights[_i] += weights[_i - 1]
        cum_weights = weights"""),
    dict(id="swapped_errors", props=["C16"], file=B,
         old='raise ValueError("The number of weights does not match the population")',
         new='raise TypeError("The number of weights does not match the population")'),
    dict(id="round_not_floor", props=["C16"], file=B,
         old="return population[_floor(deterministic_proba(input_id) * n)]",
         new="return population[min(round(deterministic_proba(input_id) * n), n - 1)]"),
    dict(id="checksum_before", props=["C11"], file=E, old=None, new=None, special="checksum_before"),
    dict(id="class_cache", props=["C11"], file=E, old='''            setattr(
                self, "run_experiment", code_holder[fn_name]
            )  # initialize the function''', new='''            setattr(
                type(self), "run_experiment", staticmethod(code_holder[fn_name])
            )  # initialize the function'''),
    dict(id="rehash_weights", props=["C10"], file=B,
         old="return population[bisect(cum_weights, deterministic_proba(input_id) * total, 0, hi)]",
         new="return population[bisect(cum_weights, deterministic_proba(input_id + str(total)) * total, 0, hi)]"),
    dict(id="wald_n_prime", props=["C18"], file=S, old="interval = z * ((p * (1 - p)) / n) ** 0.5",
         new="interval = z * ((p * (1 - p)) / (n + z**2)) ** 0.5"),
    dict(id="ac_half", props=["C18"], file=S, old="p_prime = 1 / n_prime * (est_succ + (1 / 2) * z**2)",
         new="p_prime = 1 / n_prime * (est_succ + (1 / 4) * z**2)"),
    dict(id="unknown_method_wald", props=["C18"], file=S, old='elif method.lower() == "wald":', new="elif True:"),
    dict(id="probit_noabs", props=["C18"], file=S, old="abs(log(alpha / (1 - alpha)))", new="-log(alpha / (1 - alpha))"),
    dict(id="ascii_again", props=["C12", "C15"], file=B, old='input_string.encode("utf-8")', new='input_string.encode("ascii")'),
    dict(id="cond_in_key", props=[], note="equivalent as written: conditional ids are still empty when the key is generated", file=G,
         old="fields_def = f\"''.join(map(str, [{', '.join(self.local_vars)}]))\"",
         new="fields_def = f\"''.join(map(str, [{', '.join(self.local_vars + self.conditional_ids)}]))\""),
]

from vf.selftest.mutants2 import MORE  # noqa: E402
MUTANTS += MORE
