"""Reference lexer (oracle of lexsym), written from language/README.rst "Terminal Tokens",
"Comments" and "Notes" -- see DESIGN.md Appendix A.  Maximal munch; word-like keywords are
reserved whole words and beat ID on a tie; trivia = whitespace, // comments, /* */ comments
ending at the FIRST */.
"""
from __future__ import annotations

import z3

from vf.lexsym import rx
from vf.lexsym.rx import Set, Star, Plus, Opt, cat, alt, lit, to_z3, ins, ins_inner, ANYCH, Z3Rx

DIGIT = rx.category("digit")
SPACE = rx.category("space")
WORD = rx.category("word")
IDSTART = rx.norm([(65, 90), (95, 95), (97, 122)])
IDCHAR = rx.ASCII_IDCHAR
NOT_NL = rx.cs_complement(rx.NEWLINE)
NON_ASCII_WORD = rx.cs_minus(WORD, IDCHAR)
# first characters of the right contexts covered by the step lemmas: ASCII and (Unicode) whitespace.  Any other
# character directly after a token is either a non-ASCII word character (DESIGN.md Appendix A: unobservable) or a
# character no token of either lexer starts with (non-ASCII digits excepted, which are word characters)
CONTEXT_FIRST = rx.cs_union(rx.norm([(0, 127)]), SPACE)
# A keyword is a whole word: it is not followed by an identifier character [A-Za-z0-9_].  Whether it may be followed
# by a NON-ASCII word character is unobservable (no token of either lexer can start with one, so the text is rejected
# one step later either way -- DESIGN.md Appendix A); the reference therefore simply uses "not followed by a word
# character" in Python's Unicode sense, which contains the ASCII identifier characters.
GUARD_SET = WORD

PUNCT = {"LPAREN": "(", "RPAREN": ")", "MINUS": "-", "COMMA": ",", "COLON": ":", "LBRACE": "{", "RBRACE": "}"}
OPS = {"KW_EQ": "==", "KW_NE": "!=", "KW_GE": ">=", "KW_LE": "<=", "KW_GT": ">", "KW_LT": "<"}
WORDS = {"KW_IN": "in", "KW_NOT": "not", "KW_DEF": "def", "KW_SALT": "salt", "KW_SPLITTERS": "splitters",
         "KW_IF": "if", "KW_ELSE": "else", "KW_WEIGHTED": "weighted", "KW_RETURN": "return", "KW_AND": "and",
         "KW_OR": "or"}


class TokClass:
    def __init__(self, name, rxp, guarded=False, trivia=False, value=None):
        self.name = name
        self.rx = rxp
        self.guarded = guarded
        self.trivia = trivia
        self.value = value      # 'text' | 'int' | 'float' | 'string' | None


def classes():
    cs = []
    for n, s in PUNCT.items():
        cs.append(TokClass(n, lit(s)))
    for n, s in OPS.items():
        cs.append(TokClass(n, lit(s)))
    for n, s in WORDS.items():
        cs.append(TokClass(n, lit(s), guarded=True))
    cs.append(TokClass("KW_NOT_IN", cat(lit("not"), Plus(Set(SPACE)), lit("in")), guarded=True))
    cs.append(TokClass("KW_ELIF", cat(lit("else"), Star(Set(SPACE)), lit("if")), guarded=True))
    cs.append(TokClass("ID", cat(Set(IDSTART), Star(Set(IDCHAR))), value="text"))
    cs.append(TokClass("NON_NEG_INTEGER", Plus(Set(DIGIT)), value="int"))
    cs.append(TokClass("NON_NEG_FLOAT", cat(Plus(Set(DIGIT)), lit("."), Plus(Set(DIGIT))), value="float"))
    dq = cat(lit('"'), Star(Set(rx.cs_minus(NOT_NL, [(34, 34)]))), lit('"'))
    sq = cat(lit("'"), Star(Set(rx.cs_minus(NOT_NL, [(39, 39)]))), lit("'"))
    cs.append(TokClass("STRING_LITERAL", alt(dq, sq), value="string"))
    cs.append(TokClass("WS", Plus(Set(SPACE)), trivia=True))
    cs.append(TokClass("LINE_COMMENT", cat(lit("//"), Star(Set(NOT_NL))), trivia=True))
    cs.append(TokClass("BLOCK_COMMENT", cat(lit("/*"), LazyNoClose(), lit("*/")), trivia=True))
    return cs


class LazyNoClose(Z3Rx):
    """strings without '*/' (built on demand, after the alphabet abstraction is frozen)"""

    def __init__(self):
        pass

    @property
    def term(self):
        anyc = to_z3(ANYCH)
        return z3.Complement(z3.Concat(z3.Star(anyc), z3.Re(z3.StringVal("*/")), z3.Star(anyc)))


def anyre():
    return z3.Star(to_z3(ANYCH))


def markre():
    return z3.Re(z3.StringVal(chr(rx.MARK)))


def guard_rest(c):
    """language of the rest after the lexeme"""
    if not c.guarded:
        return anyre()
    return z3.Union(z3.Re(z3.StringVal("")), z3.Concat(rx.z3_set(rx.cs_complement(GUARD_SET)), anyre()))


def is_structural(c):
    return isinstance(c.rx, Z3Rx) or any(isinstance(p, Z3Rx) for p in getattr(c.rx, "parts", []))


def longer_re(c):
    """y = a MARK b rest with a.b in T_c, b != '' and the guard holding after a.b"""
    if c.name == "BLOCK_COMMENT":
        # No other class has a lexeme that is a proper prefix of a block comment (checked by the solver in
        # lemmas.oracle_selfcheck), so a longer block comment never competes with another class.
        return z3.Empty(z3.ReSort(z3.StringSort()))
    return z3.Concat(to_z3(ins_inner(c.rx)), guard_rest(c))


_CACHE = {}


def all_classes():
    if "cs" not in _CACHE:
        _CACHE["cs"] = classes()
    return _CACHE["cs"]


def by_name(name):
    for c in all_classes():
        if c.name == name:
            return c
    raise KeyError(name)


def any_longer():
    if "longer" not in _CACHE:
        _CACHE["longer"] = z3.Union(*[longer_re(c) for c in all_classes()])
    return _CACHE["longer"]


def ref_fires(c):
    key = ("fires", c.name)
    if key not in _CACHE:
        _CACHE[key] = _ref_fires(c)
    return _CACHE[key]


def _ref_fires(c):
    """y = s MARK r: the reference lexer, at the start of x = s.r, yields class c with lexeme s."""
    base = z3.Concat(to_z3(c.rx), markre(), guard_rest(c))
    r = z3.Intersect(base, z3.Complement(any_longer()))
    if c.name == "ID":
        kws = [z3.Concat(to_z3(k.rx), markre(), guard_rest(k)) for k in all_classes() if k.guarded]
        r = z3.Intersect(r, z3.Complement(z3.Union(*kws)))
    return r


def ref_error():
    """x (no marker, non-empty): no class matches any prefix -> the text is rejected here"""
    parts = [z3.Concat(to_z3(c.rx), guard_rest(c)) for c in all_classes()]
    return z3.Intersect(z3.Complement(z3.Union(*parts)), z3.Plus(to_z3(ANYCH)))


def context_ok():
    """Texts covered by the step lemmas: all, except those in which some keyword lexeme at the start of the text
    is IMMEDIATELY followed by a non-ASCII word character (DESIGN.md Appendix A).  The documentation gives the
    keyword regexes without saying how a keyword ends; reading "if\u0663" as KW_IF + number, as an identifier, or
    as an error are all defensible, so the oracle does not take sides there."""
    if "ctx" in _CACHE:
        return _CACHE["ctx"]
    naw = z3.Concat(rx.z3_set(NON_ASCII_WORD), anyre())
    parts = []
    for k in all_classes():
        if not k.guarded:
            continue
        R = to_z3(k.rx)
        parts.append(z3.Concat(to_z3(ins(k.rx)), naw))                       # marker inside / at the end of the keyword
        parts.append(z3.Concat(R, naw, markre(), anyre()))                   # keyword and the character before the marker
        parts.append(z3.Concat(R, rx.z3_set(NON_ASCII_WORD), markre(), anyre()))
    excl = z3.Union(*parts)
    whole = z3.Concat(anyre(), markre(), anyre())
    _CACHE["ctx"] = z3.Intersect(whole, z3.Complement(excl))
    return _CACHE["ctx"]


# ---- plain Python reference tokenizer (for replays and oracle self-tests) -------------
import re as _re

_PY = None


def _py_classes():
    global _PY
    if _PY is None:
        kw = lambda w: _re.compile(w + r"(?!\w)")
        _PY = []
        for n, s in list(PUNCT.items()) + list(OPS.items()):
            _PY.append((n, _re.compile(_re.escape(s)), None))
        for n, s in WORDS.items():
            _PY.append((n, kw(_re.escape(s)), None))
        _PY.append(("KW_NOT_IN", kw(r"not\s+in"), None))
        _PY.append(("KW_ELIF", kw(r"else\s*if"), None))
        _PY.append(("ID", _re.compile(r"[A-Za-z_][A-Za-z0-9_]*"), "text"))
        _PY.append(("NON_NEG_INTEGER", _re.compile(r"\d+"), "int"))
        _PY.append(("NON_NEG_FLOAT", _re.compile(r"\d+\.\d+"), "float"))
        _PY.append(("STRING_LITERAL", _re.compile(r"\"[^\"\n]*\"|'[^'\n]*'"), "string"))
        _PY.append(("WS", _re.compile(r"\s+"), "trivia"))
        _PY.append(("LINE_COMMENT", _re.compile(r"//[^\n]*"), "trivia"))
        _PY.append(("BLOCK_COMMENT", _re.compile(r"/\*(?:(?!\*/)[\s\S])*\*/"), "trivia"))
    return _PY


class RefLexError(Exception):
    pass


def py_tokenize(text):
    """[(class, lexeme, value)] without trivia, or raises RefLexError(position)."""
    out = []
    i = 0
    n = len(text)
    while i < n:
        best = None
        for order, (name, pat, kind) in enumerate(_py_classes()):
            m = pat.match(text, i)
            if m and m.end() > i:
                L = m.end() - i
                pri = 0 if name.startswith("KW_") else 1
                cand = (-L, pri, order, name, kind, m.group())
                if best is None or cand < best:
                    best = cand
        if best is None:
            e = RefLexError(i)
            e.tokens = out
            raise e
        _, _, _, name, kind, s = best
        i += len(s)
        if kind == "trivia":
            continue
        if kind == "int":
            v = int(s)
        elif kind == "float":
            v = float(s)
        elif kind == "string":
            v = s[1:-1]
        else:
            v = s
        out.append((name, s, v))
    return out
