"""The published bucketing scheme (property C12) as z3 terms and as plain Python.

position(unit) = first 32 bits of MD5( UTF-8( salt . str(v_f1) ... str(v_fm) ) ) / 2^32,
f1 < ... < fm in code-point order of the field names; a group is selected by locating
position * total in the cumulative weights (property C03).
"""
from __future__ import annotations

import fractions
import hashlib

import z3

from vf.pysym import ops
from vf.pysym.models import digest_fn
from vf.pysym.values import SStr, FP64, RNE, fp_const


class _Ctx:
    float_mode = "real"

    def __init__(self, opts=None):
        self.notes = []
        self.opts = opts or {}

    def note(self, t):
        self.notes.append(t)


def ref_key_term(salt, splitters, values, opts=None):
    """z3 String term (or Python str) of the hashed key."""
    ctx = _Ctx(opts)
    out = "" if salt is None else salt
    for f in sorted(splitters):
        out = ops.str_concat(out, ops.py_str(ctx, values[f]))
    return out


def ref_position_bv(key):
    return z3.Extract(127, 96, digest_fn("md5")(ops.str_term(key)))


def ref_position_fp(key):
    return z3.fpDiv(RNE, z3.fpUnsignedToFP(RNE, ref_position_bv(key), FP64), fp_const(float(2 ** 32)))


# ---- plain Python (used by replays: written from the description alone) ----------------
def py_key(salt, splitters, values):
    return ("" if salt is None else salt) + "".join(str(values[f]) for f in sorted(splitters))


def py_position_k(key: str) -> int:
    return int.from_bytes(hashlib.md5(key.encode("utf-8")).digest()[:4], "big")


def py_select(k: int, weights):
    """index i with W_{i-1} <= (k/2^32) * W_n < W_i in exact rational arithmetic"""
    ws = [fractions.Fraction(w) for w in weights]
    total = sum(ws)
    x = fractions.Fraction(k, 2 ** 32) * total
    acc = fractions.Fraction(0)
    for i, w in enumerate(ws):
        acc += w
        if x < acc:
            return i
    return len(ws) - 1
