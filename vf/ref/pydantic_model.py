"""Model of pydantic-v1 field validation for the union-typed AST fields (DESIGN.md Appendix C).

The member order and Config.smart_union are READ FROM THE LIVE CLASSES; what a member accepts
is modelled here and re-checked against the installed pydantic on a corpus at every run."""
from __future__ import annotations

import z3


MODEL_CLASSES = {}


def field_info(model_cls, field):
    f = model_cls.__fields__[field]
    subs = f.sub_fields or [f]
    members = []
    for sf in subs:
        t = sf.outer_type_
        members.append(member_kind(t, sf))
    smart = bool(getattr(model_cls.__config__, "smart_union", False))
    return members, smart, f.allow_none


def member_kind(t, sf=None):
    import pydantic
    name = getattr(t, "__name__", str(t))
    if t is float:
        return "float"
    if t is int:
        return "int"
    if t is str:
        return "str"
    if t is tuple or getattr(t, "__origin__", None) is tuple:
        return "tuple"
    if t is list or getattr(t, "__origin__", None) is list:
        return "list"
    if isinstance(t, type) and issubclass(t, pydantic.ConstrainedFloat):
        return "cfloat"
    if isinstance(t, type) and issubclass(t, pydantic.ConstrainedInt):
        return "cint"
    if isinstance(t, type) and issubclass(t, pydantic.BaseModel):
        MODEL_CLASSES[t.__name__] = t
        return "model:" + t.__name__
    if t is type(None):
        return "none"
    return "other:" + name


def float_accepts_str_re():
    """strings CPython's float() parses (hence pydantic's float validator accepts)"""
    R = lambda s: z3.Re(z3.StringVal(s))
    d = z3.Range("0", "9")
    digits = z3.Concat(z3.Plus(d), z3.Star(z3.Concat(R("_"), z3.Plus(d))))
    sign = z3.Option(z3.Union(R("+"), R("-")))
    exp = z3.Option(z3.Concat(z3.Union(R("e"), R("E")), sign, digits))
    num = z3.Union(z3.Concat(digits, z3.Option(z3.Concat(R("."), z3.Option(digits))), exp),
                   z3.Concat(R("."), digits, exp))

    def ci(word):
        return z3.Concat(*[z3.Union(R(c.lower()), R(c.upper())) for c in word])
    special = z3.Union(ci("inf"), ci("infinity"), ci("nan"))
    ws = z3.Star(z3.Union(R(" "), R("\t"), R("\n"), R("\r"), R("\x0b"), R("\x0c")))
    return z3.Concat(ws, sign, z3.Union(num, special), ws)


def int_accepts_str_re():
    R = lambda s: z3.Re(z3.StringVal(s))
    d = z3.Range("0", "9")
    digits = z3.Concat(z3.Plus(d), z3.Star(z3.Concat(R("_"), z3.Plus(d))))
    sign = z3.Option(z3.Union(R("+"), R("-")))
    ws = z3.Star(z3.Union(R(" "), R("\t"), R("\n"), R("\r"), R("\x0b"), R("\x0c")))
    return z3.Concat(ws, sign, digits, ws)


def coerce_kind(members, smart, kind):
    """kind of literal in {'int','float','str','list'} -> (member that takes it, 'exact'|'coerced', resulting kind)
    for the decidable cases; for 'str' through a numeric member the acceptance depends on the contents
    and is returned as ('float'|'int', 'coerced-if', regex)."""
    exact = {"int": "int", "float": "float", "str": "str"}
    if smart:
        for m in members:
            if kind in exact and m == exact[kind]:
                return [(m, "exact", kind, None)]
    out = []
    for m in members:
        if m in ("float", "cfloat"):
            if kind in ("int", "float"):
                out.append((m, "coerced" if kind == "int" else "exact", "float", None))
                return out
            if kind == "str":
                out.append((m, "coerced-if", "float", float_accepts_str_re()))
                continue
        elif m in ("int", "cint"):
            if kind == "int":
                out.append((m, "exact", "int", None))
                return out
            if kind == "float":
                out.append((m, "coerced", "int", None))
                return out
            if kind == "str":
                out.append((m, "coerced-if", "int", int_accepts_str_re()))
                continue
        elif m == "str":
            if kind == "str":
                out.append((m, "exact", "str", None))
                return out
            if kind in ("int", "float"):
                out.append((m, "coerced", "str", None))
                return out
        elif m in ("tuple", "list"):
            if kind == "list":
                out.append((m, "coerced", m, None))
                return out
        elif m.startswith("model:"):
            # pydantic v1 validates a BaseModel member with Model.validate: a dict, an instance, or ANYTHING dict() accepts
            # (a sequence of pairs, a sequence of two-character strings) whose keys satisfy the model's fields
            if kind == "list":
                out.append((m, "coerced-if-dictable", m, None))
            continue
        else:
            continue
    return out


def concrete_model(members, smart, v):
    """model's prediction for a concrete value (used for validation against real pydantic)"""
    kind = "list" if isinstance(v, (list, tuple)) else ("int" if isinstance(v, int) and not isinstance(v, bool) else
                                                        "float" if isinstance(v, float) else "str" if isinstance(v, str) else "other")
    steps = coerce_kind(members, smart, kind)
    for m, how, res, rex in steps:
        if how == "exact":
            return v
        if how == "coerced":
            if res == "float":
                return float(v)
            if res == "int":
                return int(v)
            if res == "str":
                return str(v)
            if res in ("tuple", "list"):
                return tuple(v) if res == "tuple" else list(v)
        if how == "coerced-if":
            try:
                return float(v) if res == "float" else int(v)
            except ValueError:
                continue
        if how == "coerced-if-dictable":
            cls = MODEL_CLASSES.get(m.split(":", 1)[1])
            try:
                d = dict(v)
                return cls(**d)          # member validation is the class's own business; the ORDER is what is modelled
            except Exception:
                continue
    return ("REJECT",)
