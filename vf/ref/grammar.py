"""Reference grammar G_ref (DESIGN.md Appendix B), written from language/README.rst: the formal
grammar verbatim for S ... pred; op / term / tuple / ret / groups / weight / lit from the prose
sections ("Values can be: Strings, Numbers 42, 3.14, -1, Tuples (1,2,3)", "Return Statements")."""

START = "S"

PRODUCTIONS = [
    ("S", ["KW_DEF", "ID", "LBRACE", "salt", "splitters", "cond", "RBRACE"]),
    ("salt", []),
    ("salt", ["KW_SALT", "COLON", "STRING_LITERAL"]),
    ("splitters", []),
    ("splitters", ["KW_SPLITTERS", "COLON", "fields"]),
    ("fields", ["ID"]),
    ("fields", ["ID", "COMMA", "fields"]),
    ("cond", ["ret"]),
    ("cond", ["KW_IF", "pred", "LBRACE", "cond", "RBRACE", "sub"]),
    ("sub", []),
    ("sub", ["KW_ELSE", "LBRACE", "cond", "RBRACE"]),
    ("sub", ["KW_ELIF", "pred", "LBRACE", "cond", "RBRACE", "sub"]),
    ("pred", ["KW_NOT", "pred"]),
    ("pred", ["pred", "KW_OR", "pred"]),
    ("pred", ["pred", "KW_AND", "pred"]),
    ("pred", ["LPAREN", "pred", "RPAREN"]),
    ("pred", ["term", "op", "term"]),
    ("op", ["KW_EQ"]), ("op", ["KW_NE"]), ("op", ["KW_GT"]), ("op", ["KW_LT"]), ("op", ["KW_GE"]), ("op", ["KW_LE"]),
    ("op", ["KW_IN"]), ("op", ["KW_NOT_IN"]),
    ("term", ["lit"]), ("term", ["ID"]), ("term", ["tuple"]),
    ("tuple", ["LPAREN", "term", "tail"]),
    ("tail", ["RPAREN"]),
    ("tail", ["COMMA", "term", "tail"]),
    ("ret", ["KW_RETURN", "groups"]),
    ("groups", ["lit", "KW_WEIGHTED", "weight"]),
    ("groups", ["lit", "KW_WEIGHTED", "weight", "COMMA", "groups"]),
    ("weight", ["NON_NEG_INTEGER"]), ("weight", ["NON_NEG_FLOAT"]),
    ("lit", ["STRING_LITERAL"]), ("lit", ["NON_NEG_INTEGER"]), ("lit", ["NON_NEG_FLOAT"]),
    ("lit", ["MINUS", "NON_NEG_INTEGER"]), ("lit", ["MINUS", "NON_NEG_FLOAT"]),
]

TERMINALS = ["COLON", "COMMA", "ID", "KW_AND", "KW_DEF", "KW_ELIF", "KW_ELSE", "KW_EQ", "KW_GE", "KW_GT", "KW_IF",
             "KW_IN", "KW_LE", "KW_LT", "KW_NE", "KW_NOT", "KW_NOT_IN", "KW_OR", "KW_RETURN", "KW_SALT",
             "KW_SPLITTERS", "KW_WEIGHTED", "LBRACE", "LPAREN", "MINUS", "NON_NEG_FLOAT", "NON_NEG_INTEGER", "RBRACE",
             "RPAREN", "STRING_LITERAL"]

# a lexeme per terminal, used to render a token sequence as text
SAMPLE = {"COLON": ":", "COMMA": ",", "ID": "x", "KW_AND": "and", "KW_DEF": "def", "KW_ELIF": "else if",
          "KW_ELSE": "else", "KW_EQ": "==", "KW_GE": ">=", "KW_GT": ">", "KW_IF": "if", "KW_IN": "in", "KW_LE": "<=",
          "KW_LT": "<", "KW_NE": "!=", "KW_NOT": "not", "KW_NOT_IN": "not in", "KW_OR": "or", "KW_RETURN": "return",
          "KW_SALT": "salt", "KW_SPLITTERS": "splitters", "KW_WEIGHTED": "weighted", "LBRACE": "{", "LPAREN": "(",
          "MINUS": "-", "NON_NEG_FLOAT": "1.5", "NON_NEG_INTEGER": "1", "RBRACE": "}", "RPAREN": ")",
          "STRING_LITERAL": '"s"'}


def render(tokens):
    """token-name sequence -> DSL text with distinct identifier / label spellings"""
    out = []
    n_id = n_str = 0
    ids = ["x", "y", "zz", "fld_a", "b2"]
    for i, t in enumerate(tokens):
        if t == "ID":
            # the experiment name and field names: reuse a small pool (sharing is grammatical)
            out.append("exp" if i > 0 and tokens[i - 1] == "KW_DEF" else ids[n_id % len(ids)])
            n_id += 1
        elif t == "STRING_LITERAL":
            out.append('"s%d"' % n_str)
            n_str += 1
        else:
            out.append(SAMPLE[t])
    return " ".join(out)
