"""Reference reading of the experiment DSL: AST, pretty-printer and meaning.

Written from src/pyab_experiment/language/README.rst, docs/experiment_format.rst and the
property statements -- not from the lexer, grammar or code generator.  See DESIGN.md
Appendix B for the grammar this mirrors.
"""
from __future__ import annotations

import dataclasses
import itertools
from dataclasses import dataclass, field
from typing import Optional, Union

import z3


# ------------------------------------------------------------------------------------
# AST
# ------------------------------------------------------------------------------------
@dataclass(frozen=True)
class Lit:
    value: object            # int | float | str  (negative numbers allowed)
    text: Optional[str] = None   # exact source spelling if it matters (e.g. "007", "1.50")
    quote: str = '"'


@dataclass(frozen=True)
class Id:
    name: str


@dataclass(frozen=True)
class Tup:
    items: tuple


Term = Union[Lit, Id, Tup]


@dataclass(frozen=True)
class Cmp:
    left: object
    op: str                  # == != > < >= <= in not in
    right: object


@dataclass(frozen=True)
class Not:
    p: object


@dataclass(frozen=True)
class And:
    l: object
    r: object


@dataclass(frozen=True)
class Or:
    l: object
    r: object


@dataclass(frozen=True)
class Paren:
    """Explicit (possibly redundant) parentheses: meaning-preserving."""
    p: object


@dataclass(frozen=True)
class Group:
    value: Lit
    weight: object           # int | float  (non-negative)
    weight_text: Optional[str] = None


@dataclass(frozen=True)
class Ret:
    groups: tuple
    label: int = -1


@dataclass(frozen=True)
class If:
    chain: tuple             # ((pred, cond), ...)  first is `if`, rest `else if`
    orelse: Optional[object] = None


@dataclass(frozen=True)
class Program:
    name: str
    body: object
    salt: Optional[str] = None
    splitters: Optional[tuple] = None
    salt_quote: str = '"'


OPS = ("==", "!=", ">", "<", ">=", "<=", "in", "not in")


# ------------------------------------------------------------------------------------
# traversal helpers
# ------------------------------------------------------------------------------------
def returns(cond):
    if isinstance(cond, Ret):
        yield cond
        return
    for p, c in cond.chain:
        yield from returns(c)
    if cond.orelse is not None:
        yield from returns(cond.orelse)


def predicates(cond):
    if isinstance(cond, Ret):
        return
    for p, c in cond.chain:
        yield p
        yield from predicates(c)
    if cond.orelse is not None:
        yield from predicates(cond.orelse)


def atoms(pred):
    if isinstance(pred, Cmp):
        yield pred
    elif isinstance(pred, (Not, Paren)):
        yield from atoms(pred.p)
    else:
        yield from atoms(pred.l)
        yield from atoms(pred.r)


def term_ids(t):
    if isinstance(t, Id):
        yield t.name
    elif isinstance(t, Tup):
        for e in t.items:
            yield from term_ids(e)


def condition_fields(prog):
    out = []
    for p in predicates(prog.body):
        for a in atoms(p):
            for n in itertools.chain(term_ids(a.left), term_ids(a.right)):
                if n not in out:
                    out.append(n)
    return out


def relabel(prog):
    """Give every return statement a distinct label and make its first group the string
    'L<k>' so that the selected statement can be recognised from the outcome."""
    counter = itertools.count()

    def rec(c):
        if isinstance(c, Ret):
            k = next(counter)
            groups = tuple(Group(Lit("L%d" % k if i == 0 else "L%d_%d" % (k, i)), g.weight, g.weight_text)
                           for i, g in enumerate(c.groups))
            return Ret(groups, k)
        return If(tuple((p, rec(b)) for p, b in c.chain), None if c.orelse is None else rec(c.orelse))
    return dataclasses.replace(prog, body=rec(prog.body))


# ------------------------------------------------------------------------------------
# pretty printer
# ------------------------------------------------------------------------------------
class Style:
    def __init__(self, sep=" ", nl="\n", indent="    ", elif_kw="else if", tight=False):
        self.sep = sep
        self.nl = nl
        self.indent = indent
        self.elif_kw = elif_kw
        self.tight = tight


def lit_text(l: Lit):
    v = l.value
    if isinstance(v, str):
        q = l.quote
        if q in v or "\n" in v:
            q2 = "'" if q == '"' else '"'
            if q2 in v or "\n" in v:
                raise ValueError("string %r is not expressible as a DSL literal" % v)
            q = q2
        return q + v + q
    if l.text is not None:
        return l.text
    if isinstance(v, bool):
        raise ValueError("no boolean literals")
    if isinstance(v, int):
        return ("-" + str(-v)) if v < 0 else str(v)
    if isinstance(v, float):
        return float_text(v)
    raise ValueError("literal %r" % (v,))


def float_text(v: float):
    """A DSL spelling digits.digits of a float (the DSL has no exponent syntax)."""
    import decimal
    neg = v < 0 or (v == 0 and str(v).startswith("-"))
    d = decimal.Decimal(repr(abs(v)))
    s = format(d, "f")
    if "." not in s:
        s += ".0"
    return ("-" if neg else "") + s


def term_text(t):
    if isinstance(t, Lit):
        return lit_text(t)
    if isinstance(t, Id):
        return t.name
    if isinstance(t, Tup):
        return "(" + ", ".join(term_text(e) for e in t.items) + ")"
    raise TypeError(t)


PREC = {Or: 1, And: 2, Not: 3, Cmp: 4, Paren: 5}


def pred_text(p, parent_prec=0, right_side=False):
    """Minimal parentheses for the reference reading: not > and > or, both left-assoc."""
    if isinstance(p, Paren):
        return "(" + pred_text(p.p) + ")"
    if isinstance(p, Cmp):
        return "%s %s %s" % (term_text(p.left), p.op, term_text(p.right))
    if isinstance(p, Not):
        inner = pred_text(p.p, PREC[Not])
        s = "not " + inner
        return s
    pr = PREC[type(p)]
    kw = "and" if isinstance(p, And) else "or"
    s = "%s %s %s" % (pred_text(p.l, pr, False), kw, pred_text(p.r, pr, True))
    if pr < parent_prec or (pr == parent_prec and right_side):
        return "(" + s + ")"
    return s


def _not_needs_paren(p):
    return False


def weight_text(g: Group):
    if g.weight_text is not None:
        return g.weight_text
    if isinstance(g.weight, int):
        return str(g.weight)
    return float_text(g.weight)


def ret_text(r: Ret):
    return "return " + ", ".join("%s weighted %s" % (lit_text(g.value), weight_text(g)) for g in r.groups)


def cond_text(c, depth, st: Style):
    ind = st.indent * depth
    if isinstance(c, Ret):
        return ind + ret_text(c) + st.nl
    out = ""
    for i, (p, b) in enumerate(c.chain):
        kw = "if" if i == 0 else st.elif_kw
        out += "%s%s %s {%s%s%s}%s" % (ind, kw, pred_text(p), st.nl, cond_text(b, depth + 1, st), ind, st.nl)
    if c.orelse is not None:
        out += "%selse {%s%s%s}%s" % (ind, st.nl, cond_text(c.orelse, depth + 1, st), ind, st.nl)
    return out


def program_text(prog: Program, st: Style = None):
    st = st or Style()
    out = "def %s {%s" % (prog.name, st.nl)
    if prog.salt is not None:
        q = prog.salt_quote
        if q in prog.salt:
            q = "'" if q == '"' else '"'
        if q in prog.salt or "\n" in prog.salt:
            raise ValueError("salt not expressible")
        out += "%ssalt: %s%s%s%s" % (st.indent, q, prog.salt, q, st.nl)
    if prog.splitters is not None:
        out += "%ssplitters: %s%s" % (st.indent, ", ".join(prog.splitters), st.nl)
    out += cond_text(prog.body, 1, st)
    out += "}" + st.nl
    return out


# ------------------------------------------------------------------------------------
# typing of condition fields
# ------------------------------------------------------------------------------------
class Typing:
    """sort of each field: 'num' | 'str' | ('tuple', sort, n) | ('strcontainer',)"""

    def __init__(self):
        self.sorts = {}


def lit_sort(v):
    if isinstance(v, str):
        return "str"
    return "num"


def infer_field_sorts(prog, default="num", container_len=2):
    """Unification over the reference AST.  Fields linked by a comparison get the same
    sort; a field on the right of in/not in is a container of the left operand's sort."""
    parent = {}

    def find(x):
        while parent.get(x, x) != x:
            x = parent[x]
        return x

    def union(a, b):
        ra, rb = find(a), find(b)
        if ra != rb:
            parent[ra] = rb

    sort_of = {}      # representative -> 'num' | 'str'
    containers = {}   # field name -> element key
    conflicts = []

    def elem_key(t):
        if isinstance(t, Id):
            return ("f", t.name)
        if isinstance(t, Lit):
            return ("s", lit_sort(t.value))
        return None

    def link(ka, kb):
        if ka is None or kb is None:
            return
        union(ka, kb)

    for p in predicates(prog.body):
        for a in atoms(p):
            if a.op in ("in", "not in"):
                if isinstance(a.right, Tup):
                    for e in a.right.items:
                        link(elem_key(a.left), elem_key(e))
                elif isinstance(a.right, Id):
                    containers[a.right.name] = elem_key(a.left)
                elif isinstance(a.right, Lit) and isinstance(a.right.value, str):
                    link(elem_key(a.left), ("s", "str"))
            else:
                if isinstance(a.left, Tup) or isinstance(a.right, Tup):
                    continue
                link(elem_key(a.left), elem_key(a.right))
    sorts = {}
    for name in condition_fields(prog):
        if name in containers:
            continue
        r = find(("f", name))
        s = None
        for cand in ("num", "str"):
            if find(("s", cand)) == r:
                if s is not None:
                    conflicts.append(name)
                s = cand
        sorts[name] = s or default
    for name, ek in containers.items():
        if ek is None:
            es = default
        elif ek[0] == "s":
            es = ek[1]
        else:
            es = sorts.get(ek[1], default)
        sorts[name] = ("tuple", es, container_len)
    return sorts, conflicts


# ------------------------------------------------------------------------------------
# meaning
# ------------------------------------------------------------------------------------
UNROUTABLE = -1


class Meaning:
    """Evaluates the reference AST over field values given as pysym values (SReal / SInt /
    SStr / tuples of those), using Python's comparison semantics from vf.pysym.ops."""

    def __init__(self, ctx_like, env):
        from vf.pysym import ops
        self.ops = ops
        self.ctx = ctx_like
        self.env = env

    def term(self, t):
        if isinstance(t, Lit):
            return t.value
        if isinstance(t, Id):
            return self.env[t.name]
        return tuple(self.term(e) for e in t.items)

    def pred(self, p):
        """-> z3 Bool"""
        ops = self.ops
        if isinstance(p, Paren):
            return self.pred(p.p)
        if isinstance(p, Not):
            return z3.Not(self.pred(p.p))
        if isinstance(p, And):
            return z3.And(self.pred(p.l), self.pred(p.r))
        if isinstance(p, Or):
            return z3.Or(self.pred(p.l), self.pred(p.r))
        a, b = self.term(p.left), self.term(p.right)
        if p.op == "==":
            t = ops.eq_term(self.ctx, a, b)
        elif p.op == "!=":
            t = ops.eq_term(self.ctx, a, b)
            t = (not t) if isinstance(t, bool) else z3.Not(t)
        elif p.op in ("in", "not in"):
            t = ops.contains_term(self.ctx, a, b)
            if p.op == "not in":
                t = (not t) if isinstance(t, bool) else z3.Not(t)
        else:
            name = {"<": "Lt", "<=": "LtE", ">": "Gt", ">=": "GtE"}[p.op]
            t = ops.order_term(self.ctx, name, a, b)
        return z3.BoolVal(t) if isinstance(t, bool) else t

    def select(self, c):
        """-> z3 Int: label of the selected return statement, or UNROUTABLE."""
        if isinstance(c, Ret):
            return z3.IntVal(c.label)
        out = z3.IntVal(UNROUTABLE) if c.orelse is None else self.select(c.orelse)
        for p, b in reversed(c.chain):
            out = z3.If(self.pred(p), self.select(b), out)
        return out


# ------------------------------------------------------------------------------------
# concrete meaning (used to compute the expected outcome of a replay from plain values)
# ------------------------------------------------------------------------------------
def concrete_term(t, env):
    if isinstance(t, Lit):
        return t.value
    if isinstance(t, Id):
        return env[t.name]
    return tuple(concrete_term(e, env) for e in t.items)


def concrete_pred(p, env):
    if isinstance(p, Paren):
        return concrete_pred(p.p, env)
    if isinstance(p, Not):
        return not concrete_pred(p.p, env)
    if isinstance(p, And):
        return concrete_pred(p.l, env) and concrete_pred(p.r, env)
    if isinstance(p, Or):
        return concrete_pred(p.l, env) or concrete_pred(p.r, env)
    a, b = concrete_term(p.left, env), concrete_term(p.right, env)
    if p.op == "==":
        return a == b
    if p.op == "!=":
        return a != b
    if p.op == ">":
        return a > b
    if p.op == "<":
        return a < b
    if p.op == ">=":
        return a >= b
    if p.op == "<=":
        return a <= b
    if p.op == "in":
        return a in b
    if p.op == "not in":
        return a not in b
    raise ValueError(p.op)


def concrete_select(c, env):
    if isinstance(c, Ret):
        return c.label
    for p, b in c.chain:
        if concrete_pred(p, env):
            return concrete_select(b, env)
    if c.orelse is not None:
        return concrete_select(c.orelse, env)
    return UNROUTABLE
