"""LX-DRIVER -- what the vendored sly tokenizer loop does around the master regular expression.

The lexical lemmas (lexsym) characterise ONE match of a rule pattern at a position of the text; they say something
about texts only if Lexer.tokenize (vendored under pyab_experiment/sly/lex.py, part of the repository) applies the
state's master pattern to the caller's text itself, at the position where the previous token ended, emits the matched
text with the matched rule's name, and hands everything it cannot match to error().  tokenize() is executed from
source (pysym; generator run eagerly) on a symbolic text with an ABSTRACT master pattern:

    match(text', index') -> None | a match object with symbolic end and group, rule name in {plain, ignored, function}

for two loop iterations.  Obligations: text' is the argument of tokenize (term identity) on every call; index' is the
index argument on the first call and the previous match's end() on the second; the emitted token carries the match's
group() and rule name; an ignored rule emits nothing; no match and no literal => error() is called with the rest of
the text from that index; nothing is skipped silently (the `ignore` character set of the project's lexers is empty)."""
from __future__ import annotations

import z3

from vf import common
from vf.pysym import api
from vf.pysym.explore import Return, Raise, Unsup, SymRaise
from vf.pysym.interp import PyInstance
from vf.pysym.values import SStr, SInt, Sym

LEXMOD = "pyab_experiment.sly.lex"


class Cut(Exception):
    """ends the analysed loop after the second iteration"""


class StubMatch:
    def __init__(self, n, end, group, lastgroup):
        self.n, self._end, self._group, self.lastgroup = n, end, group, lastgroup

    def pysym_getattr(self, ctx, interp, name):
        if name == "lastgroup":
            return self.lastgroup
        if name in ("end", "group"):
            return _Bound(self, name)
        raise SymRaise(AttributeError(name))

    def pysym_truth(self, ctx):
        return True


class _Bound:
    def __init__(self, m, name):
        self.m, self.name = m, name

    def pysym_call(self, ctx, interp, args, kwargs):
        return self.m._end if self.name == "end" else self.m._group


class StubRegex:
    def __init__(self, log):
        self.log = log

    def pysym_getattr(self, ctx, interp, name):
        if name == "match":
            return _Match(self)
        raise SymRaise(AttributeError(name))


class _Match:
    def __init__(self, rx):
        self.rx = rx

    def pysym_call(self, ctx, interp, args, kwargs):
        log = self.rx.log
        n = len([e for e in log if e[0] == "match"])
        if n >= 2:
            raise SymRaise(Cut())
        text = args[0] if args else kwargs.get("string")
        index = args[1] if len(args) > 1 else kwargs.get("pos", 0)
        log.append(("match", text, index))
        k = ctx.choose(4, label="master pattern outcome")
        kind = ["none", "plain", "ignored", "function"][k]
        log.append(("kind", kind))
        if kind == "none":
            return None
        end = SInt(z3.Int(ctx.fresh_name("m_end")))
        it = index.term if isinstance(index, SInt) else z3.IntVal(index)
        tl = z3.Length(text.term) if isinstance(text, SStr) else z3.IntVal(len(text) if isinstance(text, str) else 0)
        ctx.assume(z3.And(end.term > it, end.term <= tl))
        group = SStr(z3.String(ctx.fresh_name("m_group")))
        m = StubMatch(n, end, group, {"plain": "PLAIN", "ignored": "ignore_x", "function": "FUNC"}[kind])
        log.append(("made", m))
        return m


def analyse():
    """-> (findings [(code, description)], ok_paths, run)"""
    T = z3.String("text")
    holder = {}

    def entry(it):
        import ast as _ast
        from vf.pysym.interp import ModuleEnv, Scope
        tokenize = it.load_stdlib_function(LEXMOD, "Lexer.tokenize")     # the vendored source, globals of the real module
        log = []
        holder["log"] = log
        stub_env = ModuleEnv("driver_stubs")
        sc = Scope("module", stub_env.vars, stub_env.vars, owner=stub_env)
        it.exec_body(_ast.parse("class StubLexer:\n    def error(self, t):\n        return None\n"
                                "class Token:\n    pass\n").body, sc)
        cls = stub_env.vars["StubLexer"]
        tokenize.globals["Token"] = stub_env.vars["Token"]
        rx = StubRegex(log)

        def func_token(ctx, interp, args, kwargs):
            log.append(("func", args[1]))
            return args[1]
        cls.ns["_master_re"] = rx
        cls.ns["_ignored_tokens"] = {"ignore_x"}
        cls.ns["ignore"] = ""
        cls.ns["literals"] = set()
        cls.ns["_remapping"] = {}
        cls.ns["_token_funcs"] = {"FUNC": _Native(func_token)}
        inst = PyInstance(cls)

        def error_stub(ctx, interp, args, kwargs):
            log.append(("error", args[1]))
            raise SymRaise(Cut())
        it.call_overrides["StubLexer.error"] = error_stub
        it.ctx.begin_call()
        try:
            toks = it.call(tokenize, [inst, SStr(T)], {})
            res = ("return", toks)
        except SymRaise as e:
            if isinstance(e.exc, Cut):
                res = ("cut", None)
            else:
                res = ("raise", type(e.exc).__name__)
        return {"res": res, "log": list(log), "inst": inst}
    run = api.run(entry, opts={"prune": True})
    findings = []
    ok = 0

    def add(code, desc):
        if (code, desc) not in findings:
            findings.append((code, desc))
    for p in run.paths:
        if isinstance(p.outcome, Unsup):
            raise common.Inconclusive("sly Lexer.tokenize leaves the pysym subset: " + p.outcome.reason)
        if isinstance(p.outcome, Raise):
            raise common.Inconclusive("driver harness raised %s" % p.outcome.exc_name)
        snap = p.outcome.value
        log = snap["log"]
        matches = [e for e in log if e[0] == "match"]
        kinds = [e[1] for e in log if e[0] == "kind"]
        made = [e[1] for e in log if e[0] == "made"]
        if not matches:
            # legitimate only for the empty text (text[index] raises IndexError at once)
            s_ = z3.Solver()
            s_.set("timeout", 10000)
            s_.add(*p.conds)
            s_.add(z3.Length(T) > 0)
            if s_.check() != z3.unsat:
                add("no-match-call", "tokenize ends (%s) on a non-empty text without applying the master pattern" % (snap["res"][0],))
            else:
                ok += 1
            continue
        prev_end = None
        for i, (_, text, index) in enumerate(matches):
            if not (isinstance(text, SStr) and text.term.eq(T)):
                add("text-transformed", "the master pattern is applied to %s, not to tokenize()'s argument" % (
                    str(text.term)[:90] if isinstance(text, Sym) else repr(text)[:60]))
            if i == 0:
                if not (isinstance(index, int) and index == 0):
                    add("index", "the first match does not start at the index argument but at %r" % (index,))
            else:
                want = prev_end
                if want is None:
                    continue
                same = isinstance(index, SInt) and index.term.eq(want.term)
                if not same:
                    add("index", "the second match does not start where the first one ended (%s)" % (
                        str(index.term)[:60] if isinstance(index, Sym) else index))
            prev_end = made[i]._end if i < len(made) and kinds[i] != "none" else None
        # what is emitted
        ys = [v for t, v in p.recorded if t == "yield"]
        expect = []
        for i, kd in enumerate(kinds):
            if kd in ("plain", "function") and i < len(made):
                expect.append((made[i], "PLAIN" if kd == "plain" else "FUNC"))
        # the token of the second match may not have been emitted yet when the analysis is cut: compare the common prefix
        for (m_, ty), tok in zip(expect, ys):
            attrs = getattr(tok, "attrs", {})
            if attrs.get("value") is not m_._group:
                add("token-value", "the emitted token's value is not the matched text (m.group())")
            if attrs.get("type") != ty:
                add("token-type", "the emitted token's type is %r, the matched rule is %r" % (attrs.get("type"), ty))
        if len(ys) > len(expect):
            add("token-extra", "%d tokens emitted for %d non-ignored matches" % (len(ys), len(expect)))
        if len(ys) < len(expect) - 1 or (len(ys) < len(expect) and len(matches) < 2):
            add("token-lost", "%d tokens emitted for %d non-ignored matches (%s)" % (len(ys), len(expect), kinds))
        if kinds and kinds[0] == "none":
            errs = [e for e in log if e[0] == "error"]
            if not errs:
                add("error-skipped", "no rule matches and error() is not called (%s)" % (snap["res"],))
        ok += 1
    return findings, ok, run


class _Native:
    def __init__(self, fn):
        self.fn = fn

    def pysym_call(self, ctx, interp, args, kwargs):
        return self.fn(ctx, interp, args, kwargs)
