"""C10 -- one hash position per unit; weight changes move only units at the boundary.

 (i)  the hashed key is the same term in every branch and mentions no weight, label or
      condition field (lemmas L2/L3 of C12 re-run on programs whose branches differ in
      weights and labels);
 (ii) monotonicity, bit-precise: for concrete pairs (w, w') with W_i/W_n <= W'_i/W'_n for all i,
      no hash position k is assigned a later group under w' than under w
      (pc_w(leaf i) AND pc_w'(leaf j), same k, j > i  must be unsat).
"""
from __future__ import annotations

import fractions
import itertools
import random

import z3

from vf import common, harness
from vf.common import Tally
from vf.families import weights as wf
from vf.pysym.explore import Return, Raise, Unsup
from vf.props import C03, C12
from vf.replay import enc

PROP = "C10"


def prefix_shares(texts):
    ws = [wf.exact(t) for t in texts]
    tot = sum(ws)
    acc = fractions.Fraction(0)
    out = []
    for w in ws:
        acc += w
        out.append(acc / tot)
    return out


def ordered(a, b):
    if len(a) != len(b):
        return False
    return all(x <= y for x, y in zip(prefix_shares(a), prefix_shares(b)))


def pair_family(tier, seed):
    rng = random.Random(seed)
    pairs = []
    pcts = [1, 5, 10, 20, 33, 50, 80, 90, 99]
    for p, q in itertools.combinations(pcts, 2):
        pairs.append(([str(p), str(100 - p)], [str(q), str(100 - q)]))
    dec = ["0.1", "0.2", "0.25", "0.5", "0.75", "0.9"]
    for p, q in itertools.combinations(dec, 2):
        a = [p, str(fractions.Fraction(1) - fractions.Fraction(p))]
        b = [q, str(fractions.Fraction(1) - fractions.Fraction(q))]
        a[1] = "%s" % float(fractions.Fraction(1) - fractions.Fraction(p))
        b[1] = "%s" % float(fractions.Fraction(1) - fractions.Fraction(q))
        pairs.append((a, b))
    pairs.append((["1", "9"], ["2", "8"]))
    pairs.append((["1000000000", "9000000000"], ["2000000000", "8000000001"]))
    pairs.append((["10", "90"], ["20", "80"]))
    pairs.append((["0.000000001", "1"], ["1", "1"]))
    pairs.append((["1", "1000000000"], ["2", "1000000000"]))
    pairs.append((["3", "3", "3"], ["4", "3", "2"]))
    pairs.append((["3", "3", "3"], ["3000000001", "3000000000", "3000000000"]))
    pairs.append((["1", "2", "3"], ["2", "2", "2"]))
    pairs.append((["0", "1", "1"], ["1", "1", "1"]))
    pairs.append((["1", "0", "1"], ["1", "1", "0"]))
    pairs.append((["0.1", "0.2", "0.3", "0.4"], ["0.4", "0.3", "0.2", "0.1"]))
    pairs.append((["1", "1", "1", "1"], ["2", "1", "1", "0"]))
    pairs.append(([str(i + 1) for i in range(8)], [str(8 - i) for i in range(8)]))
    pairs.append((["1"] * 16, ["2"] * 8 + ["1"] * 8))
    alpha = ["0", "1", "2", "3", "0.5", "0.1", "3.4"]
    cands = []
    for n in (2, 3):
        vecs = [list(v) for v in itertools.product(alpha, repeat=n) if any(wf.exact(t) > 0 for t in v)]
        for a, b in itertools.permutations(vecs, 2):
            if a != b and ordered(a, b) and prefix_shares(a) != prefix_shares(b):
                cands.append((a, b))
    rng.shuffle(cands)
    pairs += cands[:400] if tier == "thorough" else cands[:25]
    # sizes read off the implementation (vf/props/sizes.py): none on the pinned tree
    from vf.props import sizes
    for s_ in sizes.sizes_around():
        if s_ >= 2:
            a = [str(i % 7 + 1) for i in range(s_)]
            b = [str(int(a[0]) + 5)] + a[1:]
            pairs.append((a, b))
    out = []
    for a, b in pairs:
        if ordered(a, b):
            out.append((a, b))
    return out


def grouped_pair_check(out, tally, ra, rb, a, b, wa, wb, timeout_ms):
    """long vectors: one query per leaf of the first run against the disjunction of all later leaves of the second"""
    for run in (ra, rb):
        for p in run.paths:
            if isinstance(p.outcome, Unsup):
                out["status"] = "inconclusive"
                out["note"] = "unsupported: " + p.outcome.reason
                return
    A = [p for p in ra.paths if isinstance(p.outcome, Return)]
    B = [p for p in rb.paths if isinstance(p.outcome, Return)]
    if not A or not B:
        out["status"] = "inconclusive"
        out["note"] = "no returning path for valid weights"
        return
    short = min(timeout_ms, 20000)
    for pa in A:
        i = pa.outcome.value
        ka = [v for t, v in pa.recorded if t == "pos_k"][0]
        later = []
        for pb in B:
            if pb.outcome.value > i:
                kb = [v for t, v in pb.recorded if t == "pos_k"][0]
                later.append(z3.And(*[z3.substitute(c, (kb, ka)) for c in pb.conds]) if pb.conds else z3.BoolVal(True))
        if not later:
            continue
        r, m = common.check(tally, list(pa.conds) + [z3.Or(*later)], short, _retry=False,
                            label="C10 monotone (%d groups): unit moves from group %d to a later group" % (len(a), i), keep_sample=(i == 0))
        if r == "unknown":
            out["status"] = "inconclusive"
            out["note"] = "unknown on monotonicity (%d groups)" % len(a)
        elif r == "sat":
            kv = m.eval(ka, model_completion=True).as_long()
            out["witnesses"].append({"kind": "monotone", "weights_a": enc(wa), "weights_b": enc(wb), "position_k": kv,
                                     "why": "a unit at hash position k=%d is in group %d under the first of two %d-group weight vectors "
                                            "but in a later group under the second (first weight raised)" % (kv, i, len(a)), "plain": ""})
            if len(out["witnesses"]) >= 2:
                return
    out["reach"] += 1


def check_pair(item):
    a, b, timeout_ms = item
    common.setup_path()
    tally = Tally()
    out = {"status": "ok", "witnesses": [], "paths": 0, "reach": 0, "encoded": {}, "stubs": [], "pair": (a, b)}
    n = len(a)
    wa = [wf.value_of(t) for t in a]
    wb = [wf.value_of(t) for t in b]
    ra = C03.run_choice(list(range(n)), wa)
    rb = C03.run_choice(list(range(n)), wb)
    out["paths"] = len(ra.paths) + len(rb.paths)
    out["encoded"] = ra.encoded_digest()
    out["stubs"] = ra.notes
    if n > 8:
        grouped_pair_check(out, tally, ra, rb, a, b, wa, wb, timeout_ms)
        out["tally"] = tally
        return out
    for pa in ra.paths:
        for pb in rb.paths:
            for p in (pa, pb):
                if not isinstance(p.outcome, Return):
                    out["status"] = "inconclusive"
                    out["note"] = "non-returning path for valid weights: %r" % (p.outcome,)
            if out["status"] != "ok":
                break
            i, j = pa.outcome.value, pb.outcome.value
            if not (j > i):
                continue
            ka = [v for t, v in pa.recorded if t == "pos_k"][0]
            kb = [v for t, v in pb.recorded if t == "pos_k"][0]
            conds = list(pa.conds) + [z3.substitute(c, (kb, ka)) for c in pb.conds]
            r, m = common.check(tally, conds, timeout_ms, label="C10 monotone: unit moves from group %d to later group %d" % (i, j),
                                keep_sample=True)
            if r == "unknown":
                out["status"] = "inconclusive"
                out["note"] = "unknown on monotonicity %s -> %s" % (a, b)
            elif r == "sat":
                kv = m.eval(ka, model_completion=True).as_long()
                out["witnesses"].append({"kind": "monotone", "weights_a": enc(wa), "weights_b": enc(wb), "position_k": kv,
                                         "why": "a unit at hash position k=%d is in group %d under %s but in the later group %d under %s"
                                                % (kv, i, a, j, b), "plain": ""})
    # twin: each run has a reachable leaf at k = 0
    for run in (ra, rb):
        for p in run.paths:
            ks = [v for t, v in p.recorded if t == "pos_k"]
            if ks and isinstance(p.outcome, Return):
                r, m = common.check(tally, list(p.conds) + [ks[0] == 0], timeout_ms)
                if r == "sat":
                    out["reach"] += 1
                    break
    out["tally"] = tally
    return out


def _dispatch(a):
    if a[0] == "key":
        return C12.lemma_key(a[1:])
    if a[0] == "forward":
        return C12.lemma_forward(a[1], only=a[2])
    return check_pair(a)


def branch_programs():
    """Programs whose branches differ in labels, weights and number of groups."""
    from vf.ref.dsl import Program, If, Ret, Group, Lit, Id, Cmp, Tup, relabel
    from vf.families.programs import R

    def ret(ws):
        return Ret(tuple(Group(Lit("g%d" % i), wf.value_of(w, False), w) for i, w in enumerate(ws)))
    bodies = [
        If(((Cmp(Id("seg"), "==", Lit("a")), ret(["10", "90"])),
            (Cmp(Id("seg"), "==", Lit("b")), ret(["20", "80"]))), ret(["1", "1", "1"])),
        If(((Cmp(Id("age"), ">", Lit(30)), If(((Cmp(Id("plan"), "in", Tup((Lit("x"), Lit("y")))), ret(["0.1", "0.9"])),),
                                              ret(["0.2", "0.8"]))),), ret(["5"])),
    ]
    out = []
    for body in bodies:
        for salt in (None, "s"):
            for spl in (("uid",), ("uid", "dev")):
                out.append(relabel(Program(name="mono", body=body, salt=salt, splitters=spl)))
    return out


def main(tier):
    common.setup_path()
    from vf.families import splitters as sf
    rep = common.Reporter(PROP)
    timeout_ms = 60000 if tier == "quick" else 600000
    items = [("forward", timeout_ms, c) for c in C12.FORWARD_CONFIGS]
    for prog in branch_programs():
        for ty in sf.typings(prog.splitters, tier, common.seed())[:4]:
            items.append(("key", "branches", prog, ty, timeout_ms))
    pairs = pair_family(tier, common.seed())
    for a, b in pairs:
        items.append((a, b, timeout_ms))
    results = common.pmap(_dispatch, items, chunksize=1)
    total = Tally()
    encoded, stubs = {}, set()
    n_paths = reach = 0
    for r in results:
        total.merge(r["tally"])
        n_paths += r["paths"]
        reach += r.get("reach", 0)
        encoded.update(r.get("encoded") or {})
        stubs.update(r.get("stubs") or [])
        if r["status"] == "inconclusive":
            rep.inconc(r.get("note", "?"))
        elif r["status"] == "nocompile":
            rep.inconc("program does not compile: %s" % r.get("note"))
        for w in r["witnesses"]:
            if len(rep.violations) >= 5:
                break
            if w["kind"] == "forward":
                w = dict(w)
                w["kind"] = "rehash"
            payload = dict(w)
            payload["property"] = PROP
            plain = payload.pop("plain", "")
            payload.pop("plain_fields", None)
            o = common.run_replay_subprocess(payload)
            payload["replay_result"] = o
            summary = "%s; %s | %s" % (w["why"], plain, o.get("observed", ""))
            if o.get("reproduced"):
                rep.violation(payload, summary)
            else:
                rep.inconc("witness did not reproduce: " + summary)
    coverage = {
        "programs": len(pairs) + len(branch_programs()),
        "disagreements_checked": total.unsat + total.sat,
        "samples": total.samples[:4] or [{"note": "none"}],
        "weight_vector_pairs": len(pairs),
        "paths": n_paths,
        "reachability_twins_passed": reach,
        "queries": total.as_dict(),
        "functions_encoded": encoded,
        "stubs_used": sorted(stubs) + ["deterministic_proba replaced by k/2^32 for a fresh 32-bit k shared by both "
                                       "weight vectors (one position per unit: lemmas L2/L3)"],
        "bounds": "per pair of weight vectors: all 2^32 hash positions, bit-precise; pairs: %d ordered pairs (two-group "
                  "percentage ramps, decimal ramps, scaled, n<=3 alphabet pairs, long ramps); symbolic weights outside the claim" % len(pairs),
    }
    common.write_evidence(PROP, "translation_validation", coverage,
                          ["prefix-share order of a pair computed in exact rationals of the declared decimals"],
                          rep.wall, len(rep.violations), tier)
    print("C10: %d pairs, %d items, %d paths, queries %s, wall %.1fs" % (len(pairs), len(items), n_paths,
                                                                       total.as_dict(), rep.wall))
    return rep.exit_code()
