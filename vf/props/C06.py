"""C06 -- text outside the grammar is rejected, never silently repaired.

Lexical (unbounded in the length of the text, one-step lemmas over the live rule patterns):
  LX-REJECT, LX-ONLY for every token and ignore rule, what error() does (pysym on its source),
  PS-GLUE: what parse_source does around lexer and parser (vf/props/glue.py, pysym on parse_source), including
  the end-of-text check for an unterminated block comment.
Syntactic (token sequences up to K): L(G_impl) subset of L(G_ref) by CYK circuits (SAT);
  PARSE-ABSORB: the LR driver's error branch never resumes (pysym on Parser.parse's error block
  with the live ExperimentParser.error); conflict lists empty; table validation on near-misses.
Evaluator: a None / raising parse never yields an evaluator (C11's step analysis of __init__).
"""
from __future__ import annotations

import random

import z3

from vf import common, harness
from vf.common import Tally
from vf.cfgsym import cyk, absorb
from vf.props import lexcommon, C11
from vf.pysym import api
from vf.pysym.explore import Return, Raise, Unsup, SymRaise
from vf.pysym.interp import PyInstance, PyClass, ModuleEnv
from vf.ref import grammar as rg
from vf.replay import enc

PROP = "C06"
WRAP = "pyab_experiment.utils.wraper_functions"


def mutate(tokens, rng, terminals):
    t = list(tokens)
    kind = rng.choice(["delete", "dup", "swap", "insert", "replace"])
    if kind == "delete" and len(t) > 1:
        del t[rng.randrange(len(t))]
    elif kind == "dup":
        i = rng.randrange(len(t))
        t.insert(i, t[i])
    elif kind == "swap" and len(t) > 1:
        i = rng.randrange(len(t) - 1)
        t[i], t[i + 1] = t[i + 1], t[i]
    elif kind == "insert":
        t.insert(rng.randrange(len(t) + 1), rng.choice(terminals))
    else:
        t[rng.randrange(len(t))] = rng.choice(terminals)
    return t


def real_accepts(text):
    from pyab_experiment.experiment_evaluator import ExperimentEvaluator
    import contextlib
    import io
    buf = io.StringIO()
    try:
        with contextlib.redirect_stdout(buf), contextlib.redirect_stderr(buf):
            ExperimentEvaluator(text)
        return True, buf.getvalue()
    except Exception as e:
        return False, type(e).__name__


def main(tier):
    common.setup_path()
    rep = common.Reporter(PROP)
    tally = Tally()
    rng = random.Random(common.seed())
    K = 18 if tier == "quick" else 24
    timeout_ms = 120000 if tier == "quick" else 1800000
    witnesses = []
    # ---- lexical ----------------------------------------------------------------------
    A, info = lexcommon.run({"reject", "only", "trivia", "block"})
    for f in A.findings:
        if f["lemma"] in ("LX-REJECT", "LX-ONLY") or (f["lemma"] == "LX-TRIVIA" and "silently" in f["desc"]):
            w = lexcommon.witness_payload(f)
            if f["lemma"] == "LX-REJECT":
                w = {"kind": "rejects", "text": f["text"] if f["text"] else "=", "why": w["why"]}
                w["text"] = 'def e { return "a" weighted 1 } ' + w["text"]
            witnesses.append(w)
    from vf.props import glue
    gfind, ok_paths, genc, gnotes = glue.analyse_all()
    for code, desc in gfind:
        if code == "unterminated-accepted":
            witnesses.append({"kind": "rejects", "text": 'def e { return "a" weighted 1 } /* never closed', "why": desc})
    witnesses += glue.witnesses_for(PROP, [f for f in gfind if f[0] != "unterminated-accepted"])
    # ---- syntactic --------------------------------------------------------------------
    gi, parser_cls = cyk.live_grammar()
    gr = cyk.ref_grammar()
    lt = parser_cls._lrtable
    if lt.sr_conflicts or lt.rr_conflicts:
        rep.inconc("LALR table has unresolved conflicts: sr=%s rr=%s" % (lt.sr_conflicts[:2], lt.rr_conflicts[:2]))
    r, seq = cyk.compare(gi, gr, K, timeout_ms, "impl_not_ref", tally=tally,
                         label="CFG: a token sequence (<= %d tokens) accepted by the live grammar but not by the documented one" % K)
    if r == "unknown":
        rep.inconc("solver unknown on grammar inclusion (K=%d)" % K)
    elif r == "sat":
        witnesses.append({"kind": "rejects", "text": rg.render(seq),
                          "why": "the live grammar derives the token sequence %s, the documented grammar does not" % " ".join(seq)})
    # vacuity twin: both grammars share a sentence of length exactly K' for some K' <= K
    twin = None
    for kk in (K, K - 1, K - 2, 14, 11):
        r2, s2 = cyk.compare(gi, gr, K, timeout_ms, "both", exact_len=kk, tally=tally, label="CFG twin: common sentence of length %d" % kk)
        if r2 == "sat":
            twin = s2
            break
    if twin is None:
        rep.inconc("vacuity: no common sentence found")
    # PARSE-ABSORB
    absorb_res, absorb_enc, block_src = absorb.analyse()
    resumed = [a for a in absorb_res if a["outcome"] not in ("raise", "return-none")]
    for a in resumed:
        if a["outcome"] == "unsupported":
            rep.inconc("PARSE-ABSORB: error branch leaves the pysym subset (%s)" % a.get("reason"))
    resumed = [a for a in resumed if a["outcome"] != "unsupported"]
    # table validation: near-misses of solver-generated sentences must be rejected by the real pipeline
    sentences = []
    blocked = []
    lengths = [8, 9, 11, 12, 13, 14, 15, 16, 17, 18] + ([19, 20, 21, 22] if tier == "thorough" else [])
    per_len = 3 if tier == "quick" else 8
    for n in lengths:
        for _ in range(per_len):
            r3, s3 = cyk.compare(gi, gr, max(n, 8), 60000, "both", exact_len=n, tally=tally, blocked=blocked,
                                 label="CFG: enumerate sentence of length %d" % n)
            if r3 != "sat":
                break
            blocked.append(s3)
            sentences.append(s3)
    near = []
    absorbed = []
    n_valid = 0
    for s in sentences:
        for _ in range(4):
            t = mutate(s, rng, gr.terminals)
            if cyk.recognize(gr, t):
                continue
            text = rg.render(t)
            acc, how = real_accepts(text)
            n_valid += 1
            near.append(text)
            if acc:
                absorbed.append((text, t))
    # prefix / suffix junk, two definitions, broken-then-valid (candidates named by PARSE-ABSORB)
    ok_text = 'def e { return "a" weighted 1 }'
    for cand in ["junk junk " + ok_text, "x " + ok_text, ok_text + " junk", ok_text + " " + ok_text,
                 'def e { return "x" } ' + ok_text, "} " + ok_text, ok_text + " }", 'def { } ' + ok_text,
                 ok_text + " def", "1 2 3 " + ok_text, '"s" ' + ok_text]:
        acc, how = real_accepts(cand)
        n_valid += 1
        if acc:
            absorbed.append((cand, None))
    if resumed or absorbed:
        if absorbed:
            for text, t in absorbed[:3]:
                witnesses.append({"kind": "rejects", "text": text,
                                  "why": "a text the documented grammar rejects is compiled (error recovery resumes: %s)"
                                         % ("; ".join(sorted({a["desc"] + " -> " + a["outcome"] for a in resumed})[:2]) or "table/driver")})
        else:
            rep.inconc("PARSE-ABSORB: the error branch can resume parsing (%s) but no absorbed text was found" % resumed[:2])
    # ---- evaluator ----------------------------------------------------------------------
    init = C11.analyse("init", 60000)
    tally.merge(init["tally"])
    for w in init["witnesses"]:
        if w["scenario"] in ("swallow", "init"):
            witnesses.append({"kind": "lifecycle", "scenario": "swallow", "why": "C06 evaluator: " + w["why"]})
    if init["status"] == "inconclusive":
        rep.inconc("evaluator step: %s" % init.get("note"))

    tally.merge(A.tally)
    seen = set()
    for w in witnesses:
        if len(rep.violations) >= 6:
            break
        key = w["why"][:60]
        if key in seen:
            continue
        seen.add(key)
        payload = dict(w)
        payload["property"] = PROP
        o = common.run_replay_subprocess(payload)
        payload["replay_result"] = o
        summary = "%s | %s" % (w["why"], o.get("observed", ""))
        if o.get("reproduced"):
            rep.violation(payload, summary)
        else:
            rep.inconc("witness did not reproduce: " + summary)
    coverage = {
        "states": sum(len(v) for v in info["rules"].values()),
        "transitions": len(info["discharged"]) + len(absorb_res),
        "traces_validated_against_impl": n_valid,
        "samples": tally.samples[:4] + [{"near_miss_texts": near[:3]}],
        "lexer_rules": info["rules"],
        "alphabet_blocks": info["alphabet_blocks"],
        "lemmas_discharged": info["discharged"],
        "token_bound_K": K,
        "common_sentence_twin": " ".join(twin) if twin else None,
        "parse_absorb_paths": absorb_res,
        "parse_source_glue_paths_ok": ok_paths,
        "tokenizer_driver_obligations": ["master pattern applied to tokenize()'s own text", "each match starts where the previous one ended", "emitted token carries the matched text and rule name", "ignored rules emit nothing", "no match => error() gets the rest of the text"],
        "parse_source_glue_obligations": ["text handed to the lexer unchanged", "token stream handed to the parser unchanged", "LexError / YaccError propagate", "parser result returned unchanged", "lexer ending inside a block comment raises", "a lexer outliving the call is back in its initial state on every exit"],
        "lalr_conflicts": {"sr": len(lt.sr_conflicts), "rr": len(lt.rr_conflicts)},
        "near_misses_rejected_by_the_real_pipeline": n_valid - len(absorbed),
        "queries": tally.as_dict(),
        "functions_encoded": dict(absorb_enc, **genc, **init["encoded"]),
        "bounds": "lexical lemmas: texts of any length, one step from any position, in both lexer states; syntactic "
                  "inclusion: token sequences of length <= %d; between the two, sly's LALR table construction and shift/reduce "
                  "driver are trusted (validated on %d solver-generated near-misses)" % (K, n_valid),
    }
    common.write_evidence(PROP, "model_checking", coverage,
                          ["Python re match policy as characterised per rule (prefix-free / longest / shortest, justified by "
                           "solver queries)", "alphabet abstraction: non-ASCII code points grouped by membership in the "
                           "character classes used (minterms)", "sly LALR(1) tables + driver accept exactly L(G_impl) when "
                           "error() never returns", "reference lexer/grammar = our reading of language/README.rst"],
                          rep.wall, len(rep.violations), tier)
    print("C06: lexical lemmas %d discharged, K=%d, near-misses %d, queries %s, wall %.1fs" % (
        len(info["discharged"]), K, n_valid, tally.as_dict(), rep.wall))
    return rep.exit_code()
