"""Size thresholds of the choice function, derived from the code (bounds are read off the implementation, not guessed).

deterministic_choice is executed (pysym) on lists whose LENGTH is a symbolic integer: every comparison of that length
with a constant forks the exploration, so the constants show up in the path conditions - also on paths that later
leave the supported subset (iteration over a list of unknown length), which is why this is a probe and not a proof.
The checks that enumerate weight vectors (C03, C10, C16) add vectors of the sizes around every threshold found, so a
code path that only exists for, say, 128 or more groups is inside their bounds."""
from __future__ import annotations

import z3

from vf import common
from vf.pysym import api
from vf.pysym.explore import SymRaise
from vf.pysym.values import SInt, SStr, Unsupported

BINNING = "pyab_experiment.binning.binning"
_CACHE = {}


class SymLenList:
    pysym_pytype = list

    def __init__(self, name, n):
        self.name = name
        self.n = n

    def pysym_len(self, ctx):
        return SInt(self.n)

    def pysym_getitem(self, ctx, idx):
        raise Unsupported("element of a list of symbolic length")

    def pysym_iter(self, ctx):
        raise Unsupported("iteration over a list of symbolic length")


def _numerals_compared_with(term, var, acc):
    if z3.is_app(term) and term.decl().kind() in (z3.Z3_OP_LE, z3.Z3_OP_LT, z3.Z3_OP_GE, z3.Z3_OP_GT, z3.Z3_OP_EQ, z3.Z3_OP_DISTINCT):
        a, b = term.arg(0), term.arg(1)
        for x, y in ((a, b), (b, a)):
            if z3.is_int_value(y) and _mentions(x, var):
                # normalise n - c OP d etc. by asking for the boundary value instead of parsing the shape
                acc.add(("cmp", term))
    for c in term.children():
        _numerals_compared_with(c, var, acc)


def _mentions(t, var):
    if t.eq(var):
        return True
    return any(_mentions(c, var) for c in t.children())


def thresholds(max_size=4096):
    """sorted list of sizes s such that some branch condition on the number of groups changes its truth value between
    s - 1 and s (1 < s <= max_size)"""
    if "t" in _CACHE:
        return _CACHE["t"]
    common.setup_path()
    n = z3.Int("n_groups")
    cmps = set()
    for with_weights, with_cum in ((True, False), (False, True), (False, False)):
        def entry(it, ww=with_weights, wc=with_cum):
            env = it.import_module(BINNING)
            args = [SStr(z3.String("input_id")), SymLenList("population", n)]
            kwargs = {}
            if ww:
                args.append(SymLenList("weights", n))
            if wc:
                kwargs["cum_weights"] = SymLenList("cum_weights", n)
            it.ctx.begin_call()
            return it.call(env.vars["deterministic_choice"], args, kwargs)
        try:
            run = api.run(entry, opts={"float_mode": "real", "prune": False}, assumptions=[n >= 1], max_paths=400)
        except Exception:
            continue
        for p in run.paths:
            for c in p.conds:
                _numerals_compared_with(c, n, cmps)
    out = set()
    s = z3.Solver()
    s.set("timeout", 5000)
    for _, c in cmps:
        # sizes at which this comparison flips: c(s-1) != c(s)
        prev = z3.substitute(c, (n, n - 1))
        s.push()
        s.add(n > 1, n <= max_size, prev != c)
        for _ in range(8):
            if s.check() != z3.sat:
                break
            v = s.model().eval(n, model_completion=True).as_long()
            out.add(v)
            s.add(n != v)
        s.pop()
    _CACHE["t"] = sorted(out)
    return _CACHE["t"]


def sizes_around(limit=1024):
    out = []
    for t in thresholds():
        for s in (t - 1, t, t + 1, t + 22):
            if 1 <= s <= limit and s not in out:
                out.append(s)
    return sorted(out)


# ---- the front end --------------------------------------------------------------------------------------------------
FRONT_MODULES = ["pyab_experiment.codegen.python.python_generator", "pyab_experiment.language.grammar",
                 "pyab_experiment.language.lexer", "pyab_experiment.data_structures.syntax_tree",
                 "pyab_experiment.utils.wraper_functions", "pyab_experiment.experiment_evaluator"]


def frontend_constants(lo=2, hi=2000):
    """Integer constants that the front-end modules COMPARE something with, slice by, or count up to (read from their
    source with `ast`): where a grammar action, a validator or the generator treats 'more than N members / characters /
    groups / lines' differently, N is one of them.  The program families add shapes of the sizes around every such
    constant (tuple members, groups, and/or atoms, else-if links, identifier and string lengths, digits).  On the
    pinned tree the set is empty (the only comparisons are with 0 and 1)."""
    if "f" in _CACHE:
        return _CACHE["f"]
    import ast
    import importlib.util
    found = set()

    def ints(node):
        for n in ast.walk(node):
            if isinstance(n, ast.Constant) and isinstance(n.value, int) and not isinstance(n.value, bool) and lo <= n.value <= hi:
                yield n.value
    for mod in FRONT_MODULES:
        try:
            spec = importlib.util.find_spec(mod)
            tree = ast.parse(open(spec.origin, encoding="utf-8").read())
        except Exception:
            continue
        for node in ast.walk(tree):
            if isinstance(node, ast.Compare):
                found.update(ints(node))
            elif isinstance(node, ast.Slice):
                for b in (node.lower, node.upper):
                    if b is not None:
                        found.update(ints(b))
            elif isinstance(node, ast.Call) and isinstance(node.func, ast.Name) and node.func.id in ("range", "islice", "min", "max", "divmod"):
                for a in node.args:
                    found.update(ints(a))
            elif isinstance(node, ast.MatchSequence):
                n = len(node.patterns)
                if lo <= n <= hi:
                    found.add(n)
    _CACHE["f"] = sorted(found)
    return _CACHE["f"]


def frontend_sizes(limit=300):
    out = []
    for c in frontend_constants():
        for s_ in (c - 1, c, c + 1):
            if 2 <= s_ <= limit and s_ not in out:
                out.append(s_)
    return sorted(out)
