"""Size thresholds of the choice function, derived from the code (bounds are read off the implementation, not guessed).

deterministic_choice is executed (pysym) on lists whose LENGTH is a symbolic integer: every comparison of that length
with a constant forks the exploration, so the constants show up in the path conditions - also on paths that later
leave the supported subset (iteration over a list of unknown length), which is why this is a probe and not a proof.
The checks that enumerate weight vectors (C03, C10, C16) add vectors of the sizes around every threshold found, so a
code path that only exists for, say, 128 or more groups is inside their bounds."""
from __future__ import annotations

import z3

from vf import common
from vf.pysym import api
from vf.pysym.explore import SymRaise
from vf.pysym.values import SInt, SStr, Unsupported

BINNING = "pyab_experiment.binning.binning"
_CACHE = {}


class SymLenList:
    pysym_pytype = list

    def __init__(self, name, n):
        self.name = name
        self.n = n

    def pysym_len(self, ctx):
        return SInt(self.n)

    def pysym_getitem(self, ctx, idx):
        raise Unsupported("element of a list of symbolic length")

    def pysym_iter(self, ctx):
        raise Unsupported("iteration over a list of symbolic length")


def _numerals_compared_with(term, var, acc):
    if z3.is_app(term) and term.decl().kind() in (z3.Z3_OP_LE, z3.Z3_OP_LT, z3.Z3_OP_GE, z3.Z3_OP_GT, z3.Z3_OP_EQ, z3.Z3_OP_DISTINCT):
        a, b = term.arg(0), term.arg(1)
        for x, y in ((a, b), (b, a)):
            if z3.is_int_value(y) and _mentions(x, var):
                # normalise n - c OP d etc. by asking for the boundary value instead of parsing the shape
                acc.add(("cmp", term))
    for c in term.children():
        _numerals_compared_with(c, var, acc)


def _mentions(t, var):
    if t.eq(var):
        return True
    return any(_mentions(c, var) for c in t.children())


def thresholds(max_size=4096):
    """sorted list of sizes s such that some branch condition on the number of groups changes its truth value between
    s - 1 and s (1 < s <= max_size)"""
    if "t" in _CACHE:
        return _CACHE["t"]
    common.setup_path()
    n = z3.Int("n_groups")
    cmps = set()
    for with_weights, with_cum in ((True, False), (False, True), (False, False)):
        def entry(it, ww=with_weights, wc=with_cum):
            env = it.import_module(BINNING)
            args = [SStr(z3.String("input_id")), SymLenList("population", n)]
            kwargs = {}
            if ww:
                args.append(SymLenList("weights", n))
            if wc:
                kwargs["cum_weights"] = SymLenList("cum_weights", n)
            it.ctx.begin_call()
            return it.call(env.vars["deterministic_choice"], args, kwargs)
        try:
            run = api.run(entry, opts={"float_mode": "real", "prune": False}, assumptions=[n >= 1], max_paths=400)
        except Exception:
            continue
        for p in run.paths:
            for c in p.conds:
                _numerals_compared_with(c, n, cmps)
    out = set()
    s = z3.Solver()
    s.set("timeout", 5000)
    for _, c in cmps:
        # sizes at which this comparison flips: c(s-1) != c(s)
        prev = z3.substitute(c, (n, n - 1))
        s.push()
        s.add(n > 1, n <= max_size, prev != c)
        for _ in range(8):
            if s.check() != z3.sat:
                break
            v = s.model().eval(n, model_completion=True).as_long()
            out.add(v)
            s.add(n != v)
        s.pop()
    _CACHE["t"] = sorted(out)
    return _CACHE["t"]


def sizes_around(limit=1024):
    out = []
    for t in thresholds():
        for s in (t - 1, t, t + 1, t + 22):
            if 1 <= s <= limit and s not in out:
                out.append(s)
    return sorted(out)
