"""C14 -- generated Python source is equivalent to the in-memory evaluator.

Per program: three texts -- what recompile() execs (generate(), helper nested) and the two
outputs of the real generate_code(text, expose) (black-formatted; helper nested / exposed) --
are each executed symbolically as CPython would (the first inside the evaluator module's
globals, the other two as stand-alone modules whose own imports bind the names).  z3 decides,
for every pair of paths, that no field values give different outcomes.
"""
from __future__ import annotations

import contextlib
import io
import random

import z3

from vf import common, harness, keyrun, relational
from vf.common import Tally
from vf.pysym.explore import Return, Raise, Unsup
from vf.ref import dsl
from vf.replay import enc

PROP = "C14"


def real_generate_code(text, expose):
    from pyab_experiment.utils.wraper_functions import generate_code
    buf = io.StringIO()
    try:
        with contextlib.redirect_stdout(buf), contextlib.redirect_stderr(buf):
            return generate_code(text, expose), None
    except Exception as e:
        return None, "%s: %s" % (type(e).__name__, str(e)[:200])


def check_item(item):
    kind, prog, typing, timeout_ms = item
    common.setup_path()
    tally = Tally()
    out = {"status": "ok", "witnesses": [], "paths": 0, "reach": 0, "encoded": {}, "stubs": [], "text": None}
    text = dsl.program_text(prog)
    out["text"] = text
    A = keyrun.keyed_run(prog, typing, opts={"abstract_int_str": True})
    if A.run is None:
        out["status"] = "nocompile"
        out["note"] = str(A.gen.error)
        out["tally"] = tally
        return out
    out["paths"] = len(A.run.paths)
    out["encoded"].update(A.run.encoded_digest())
    out["stubs"] = A.run.notes
    pa = []
    for p in A.run.paths:
        if isinstance(p.outcome, Unsup):
            r, m = common.check(tally, p.conds, timeout_ms)
            if r != "unsat":
                out["status"] = "inconclusive"
                out["note"] = "unsupported: " + p.outcome.reason
        else:
            pa.append(p)
    for p in pa:
        r, m = common.check(tally, p.conds, timeout_ms)
        if r == "sat":
            out["reach"] += 1
    rep = []
    for v in A.kwargs.values():
        rep += harness.representable_constraint(v)
    for expose in (False, True):
        code, err = real_generate_code(text, expose)
        layout = "helper exposed" if expose else "helper nested"
        if code is None:
            out["witnesses"].append({"kind": "module_equiv", "text": text, "expose": expose, "fields": {},
                                     "why": "generate_code(%s) fails: %s" % (layout, err), "plain": ""})
            continue
        try:
            B = keyrun.keyed_run(prog, typing, opts={"abstract_int_str": True}, gen_text=code, same_namespace=True,
                                 text=text)
        except common.Inconclusive as e:
            out["status"] = "inconclusive"
            out["note"] = str(e)
            continue
        out["paths"] += len(B.run.paths)
        out["encoded"].update(B.run.encoded_digest())
        pb = []
        for p in B.run.paths:
            if isinstance(p.outcome, Unsup):
                r, m = common.check(tally, p.conds, timeout_ms)
                if r != "unsat":
                    out["status"] = "inconclusive"
                    out["note"] = "unsupported (%s): %s" % (layout, p.outcome.reason)
            else:
                pb.append(p)
        try:
            sat = relational.compare_runs(tally, pa, pb, timeout_ms, "C14 evaluator vs generate_code (%s)" % layout,
                                          sample=True)
        except common.Inconclusive as e:
            out["status"] = "inconclusive"
            out["note"] = str(e)
            continue
        for m, p1, p2 in sat[:1]:
            d = relational.differ_term(p1.outcome, p2.outcome)
            r2, m2 = common.check(tally, list(p1.conds) + list(p2.conds) + rep + ([] if d is True else [d]), timeout_ms)
            if r2 == "sat":
                m = m2
            fields = {k: harness.model_value(m, v) for k, v in A.kwargs.items()}
            out["witnesses"].append({"kind": "module_equiv", "text": text, "expose": expose,
                                     "fields": {k: enc(v) for k, v in fields.items()},
                                     "why": "generated module (%s) and evaluator disagree: %r vs %r" % (layout, p2.outcome, p1.outcome),
                                     "plain": repr(fields)})
    out["tally"] = tally
    return out


def family(tier, seed):
    from vf.families import programs as pf, splitters as sf
    rng = random.Random(seed)
    items = []
    for p in pf.documented_programs():
        items.append(("doc", p, {}))
    singles = pf.single_predicate_programs()
    rng.shuffle(singles)
    for p in singles[: (60 if tier == "quick" else len(singles))]:
        items.append(("single", p, {}))
    sk = pf.skeleton_programs(2, 2, rng, limit=(40 if tier == "quick" else 400))
    for p in sk:
        items.append(("skeleton", p, {}))
    for p in pf.deep_programs(nesting=8, chain=20):
        items.append(("deep", p, {}))
    # fields shared between splitters and conditions (the documented Complete Example and variants)
    from vf.props.C07 import structure_programs
    for kind, name, p in structure_programs():
        if kind in ("shared", "tuple-ids", "nested-tuples", "single-tuple"):
            items.append((kind, p, {}))
    from vf.ref.dsl import Program, If, Cmp, Id, Lit, Tup, relabel
    from vf.families.programs import R
    items.append(("shared", relabel(Program("sh", If(((Cmp(Id("uid"), "in", Tup((Lit(1), Lit(2), Lit(3)))), R(2)),), None),
                                            "s", ("uid",))), {}))
    items.append(("shared", relabel(Program("sh2", If(((Cmp(Id("uid"), "==", Id("other")), R()),
                                                        (Cmp(Id("dev"), "!=", Lit("x")), R(2))), R()), None, ("dev", "uid"))), {}))
    # return statements whose populations are equal under == but differ in the type of a label (0 / 0.0 / -0.0,
    # 1 / 1.0, 2 / 2.0): anything that identifies distributions by value (a dict key, a cache) confuses them
    from vf.ref.dsl import Ret, Group

    def rets(vals, label):
        return Ret(tuple(Group(Lit(v, text=t), 1, "1") for v, t in vals), label)
    poly = [
        ("int-then-float", [(0, "0"), (1, "1")], [(0.0, "0.0"), (1.0, "1.0")]),
        ("float-then-int", [(2.0, "2.0"), (3.0, "3.0")], [(2, "2"), (3, "3")]),
        ("neg-zero", [(0.0, "0.0"), (1, "1")], [(-0.0, "-0.0"), (1, "1")]),
        ("int-then-str", [(1, "1"), (2, "2")], [("1", '"1"'), ("2", '"2"')]),
    ]
    for name, va, vb in poly:
        body = If(((Cmp(Id("x"), "==", Lit(1)), rets(va, 0)), (Cmp(Id("x"), "==", Lit(2)), rets(vb, 1))), rets(va, 2))
        items.append(("polymorphic", Program(name.replace("-", "_"), body, "s", ("uid",)), {}))
    # literals with runs of blanks, tabs and other characters that text-level post-processing of the module would touch
    for name, salt, label, operand in (("blank_runs", "exp    2024", "A    (control)", "US    "),
                                       ("tabs", "a\tb", "x\t\ty", "\t"), ("eight", " " * 8, "l" + " " * 9 + "r", "    "),
                                       ("hash_semicolon", "a # b", "c; d", "#!")):
        body = If(((Cmp(Id("country"), "==", Lit(operand)), Ret((Group(Lit(label), 1, "1"), Group(Lit("other"), 1, "1")), 0)),),
                  Ret((Group(Lit("rest"), 1, "1"),), 1))
        items.append(("literal-text", Program(name, body, salt, ("uid",)), {}))
    fam = sf.splitter_family(tier, seed)
    rng.shuffle(fam)
    for bname, p in fam[: (40 if tier == "quick" else 400)]:
        ty = sf.typings(p.splitters, "quick", seed)[0]
        items.append(("splitters", p, ty))
    return items


def main(tier):
    common.setup_path()
    rep = common.Reporter(PROP)
    timeout_ms = 60000 if tier == "quick" else 600000
    items = [(k, p, ty, timeout_ms) for k, p, ty in family(tier, common.seed())]
    results = common.pmap(check_item, items, chunksize=2)
    total = Tally()
    texts, encoded, stubs = set(), {}, set()
    n_paths = reach = 0
    for r in results:
        total.merge(r["tally"])
        n_paths += r["paths"]
        reach += r["reach"]
        encoded.update(r["encoded"])
        stubs.update(r["stubs"])
        if r["text"]:
            texts.add(r["text"])
        if r["status"] == "inconclusive":
            rep.inconc(r.get("note", "?"))
        elif r["status"] == "nocompile":
            rep.inconc("family member does not compile: %s" % r.get("note"))
        for w in r["witnesses"]:
            if len(rep.violations) >= 5:
                break
            payload = dict(w)
            payload["property"] = PROP
            plain = payload.pop("plain", "")
            o = common.run_replay_subprocess(payload)
            payload["replay_result"] = o
            summary = "%s; %s | %s" % (w["why"], plain, o.get("observed", ""))
            if o.get("reproduced"):
                rep.violation(payload, summary)
            else:
                rep.inconc("witness did not reproduce: " + summary)
    coverage = {
        "programs": len(texts),
        "disagreements_checked": total.unsat + total.sat,
        "samples": total.samples[:4] or [{"note": "none"}],
        "layouts": ["generate() as exec'd by recompile", "generate_code(text, False)", "generate_code(text, True)"],
        "paths": n_paths,
        "reachability_twins_passed": reach,
        "queries": total.as_dict(),
        "functions_encoded": encoded,
        "stubs_used": sorted(stubs) + ["deterministic_choice replaced by 'report (key, population, weights)'",
                                       "black.format_str executed natively (its output text is what is analysed)"],
        "bounds": "programs: %d members of the routing and splitter families; all field values per program" % len(texts),
    }
    common.write_evidence(PROP, "translation_validation", coverage,
                          ["import semantics of the three header imports as implemented in pysym (module policy table)"],
                          rep.wall, len(rep.violations), tier)
    print("C14: %d programs, %d paths, queries %s, wall %.1fs" % (len(texts), n_paths, total.as_dict(), rep.wall))
    return rep.exit_code()
