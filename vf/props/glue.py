"""PS-GLUE -- what parse_source does around the lexer and the parser (shared by C05, C06, C07, C08).

The lexical lemmas (lexsym) speak about ExperimentLexer and the syntactic ones (cfgsym) about ExperimentParser; they
say something about *texts* only if parse_source hands its argument to the lexer unchanged, hands the lexer's token
stream to the parser unchanged, lets their exceptions through and returns the parser's result.  Those four facts plus
the end-of-text check for an unterminated block comment are decided here by executing parse_source from source
(pysym) with a symbolic text and abstract lexer / parser:

  tokenize(text')  -> an opaque token stream; records text'
  parse(tokens')   -> Ok(AST, lexer back in its initial state) | Ok(AST, lexer still inside a block comment)
                      | raises LexError (the lazy token generator hit an illegal character) | raises YaccError
                      | raises YaccError while the lexer is inside a block comment

The lexer and grammar modules are replaced by stubs BEFORE the module under analysis is imported, so module-level
lexer / parser objects are seen too: a lexer that pre-exists the call must be back in its initial state on every
exit, normal or exceptional (otherwise one text changes how the next is read).

A failed obligation cannot be turned into a text by the solver when the transformation is uninterpreted in the model
(str.replace, splitlines, normalize ...), so the witness is a *search* over a corpus of tricky texts judged by the
reference lexer and grammar (replay kind glue_search); an obligation that fails without a reproducing text is
reported as inconclusive, never as a pass.
"""
from __future__ import annotations

import ast as _ast

import z3

from vf import common
from vf.pysym import api
from vf.pysym.explore import Return, Raise, Unsup, SymRaise
from vf.pysym.interp import ModuleEnv, Scope, PyInstance
from vf.pysym.values import SStr, Sym

WRAP = "pyab_experiment.utils.wraper_functions"
OUTCOMES = ["ok", "in_comment", "lex_error", "yacc_error", "yacc_error_in_comment"]
LEXMOD = "pyab_experiment.language.lexer"
GRAMMOD = "pyab_experiment.language.grammar"


class TokenStream:
    def __init__(self, text):
        self.text = text

    def pysym_eq(self, ctx, other):
        return self is other


class AstResult:
    id = "exp"

    def pysym_eq(self, ctx, other):
        return self is other

    def pysym_getattr(self, ctx, interp, name):
        raise SymRaise(AttributeError(name))


def analyse():
    """-> (findings [(code, description)], n_ok_paths, run)"""
    lex_src = ("class LexError(Exception):\n    pass\n"
               "class _LexerBase:\n    tokens = set()\n    def tokenize(self, text):\n        return None\n"
               "    def pop_state(self):\n        return None\n    def push_state(self, cls):\n        return None\n"
               "    def begin(self, cls):\n        return None\n"
               "class BlockComment(_LexerBase):\n    pass\n"
               "class ExperimentLexer(_LexerBase):\n    pass\n")
    gram_src = ("class YaccError(Exception):\n    pass\n"
                "class ExperimentParser:\n    def parse(self, tokens):\n        return None\n"
                "    def restart(self):\n        return None\n")
    seen = {}
    T = z3.String("text")

    policy = {LEXMOD: "interpret", GRAMMOD: "interpret"}

    def setup(it):
        for modname, src in ((LEXMOD, lex_src), (GRAMMOD, gram_src)):
            env = ModuleEnv(modname)
            import importlib
            env.vars.update({k: v for k, v in vars(importlib.import_module(modname)).items() if not k.startswith("__")})
            sc = Scope("module", env.vars, env.vars, owner=env)
            it.exec_body(_ast.parse(src).body, sc)
            it.modules[modname] = env
        try:
            from pyab_experiment.sly.lex import LexError
            from pyab_experiment.sly.yacc import YaccError
            seen["LexError"], seen["YaccError"] = LexError, YaccError
            it.modules[LEXMOD].vars["LexError"] = LexError
            it.modules[GRAMMOD].vars["YaccError"] = YaccError
        except Exception:
            pass
        seen["ExperimentLexer"] = it.modules[LEXMOD].vars["ExperimentLexer"]
        seen["BlockComment"] = it.modules[LEXMOD].vars["BlockComment"]

        def tokenize_stub(ctx, interp, args, kwargs):
            ctx.recorded.append(("lexer", args[0]))
            ctx.recorded.append(("lexer_local", ctx.is_local(args[0])))
            if isinstance(args[0], PyInstance) and args[0].pyclass is not seen["ExperimentLexer"]:
                ctx.recorded.append(("lexer_started_elsewhere", True))
            text = args[1] if len(args) > 1 else kwargs.get("text")
            ctx.recorded.append(("lexed_text", text))
            ts = TokenStream(text)
            ctx.recorded.append(("stream", ts))
            return ts

        def parse_stub(ctx, interp, args, kwargs):
            toks = args[1] if len(args) > 1 else kwargs.get("tokens")
            ctx.recorded.append(("parsed_stream", toks))
            ctx.recorded.append(("parser_local", ctx.is_local(args[0])))
            k = ctx.choose(len(OUTCOMES), label="lexer/parser outcome")
            oc = OUTCOMES[k]
            ctx.recorded.append(("outcome", oc))
            lx = [v for t, v in ctx.recorded if t == "lexer"]
            if oc in ("in_comment", "yacc_error_in_comment") and lx and isinstance(lx[-1], PyInstance):
                lx[-1].pyclass = seen["BlockComment"]
            if oc == "lex_error":
                raise SymRaise(seen["LexError"]("Illegal character", "x", 0) if seen.get("LexError") else RuntimeError("LexError"))
            if oc in ("yacc_error", "yacc_error_in_comment"):
                raise SymRaise(seen["YaccError"]("Syntax error") if seen.get("YaccError") else RuntimeError("YaccError"))
            res = AstResult()
            ctx.recorded.append(("ast", res))
            return res

        def pop_state_stub(ctx, interp, args, kwargs):
            if isinstance(args[0], PyInstance):
                args[0].pyclass = seen["ExperimentLexer"]
            return None

        def begin_stub(ctx, interp, args, kwargs):
            if isinstance(args[0], PyInstance) and len(args) > 1 and args[1] in (seen["ExperimentLexer"], seen["BlockComment"]):
                args[0].pyclass = args[1]
            return None
        it.call_overrides["_LexerBase.tokenize"] = tokenize_stub
        it.call_overrides["ExperimentParser.parse"] = parse_stub
        it.call_overrides["_LexerBase.pop_state"] = pop_state_stub
        it.call_overrides["_LexerBase.begin"] = begin_stub

    def entry(it):
        env = it.import_module(WRAP)
        for n in ("ExperimentLexer", "ExperimentParser"):
            if n not in env.vars:
                raise common.Inconclusive("parse_source no longer uses %s" % n)
        it.ctx.begin_call()
        try:
            v = it.call(env.vars["parse_source"], [SStr(T)], {})
            res = ("return", v)
        except SymRaise as e:
            res = ("raise", getattr(getattr(e.exc, "pyclass", None), "name", type(e.exc).__name__))
        lex = [v for t, v in it.ctx.recorded if t == "lexer"]
        leaked = [l for l in lex if isinstance(l, PyInstance) and not it.ctx.is_local(l) and l.pyclass is not seen["ExperimentLexer"]]
        return {"res": res, "leaked": bool(leaked)}
    run = api.run(entry, opts={"prune": True}, setup=setup, policy=policy)
    findings = []
    ok = 0

    def add(code, desc):
        if (code, desc) not in findings:
            findings.append((code, desc))
    for p in run.paths:
        if isinstance(p.outcome, Unsup):
            raise common.Inconclusive("parse_source leaves the pysym subset: " + p.outcome.reason)
        if isinstance(p.outcome, Raise):
            raise common.Inconclusive("glue harness raised %s" % p.outcome.exc_name)
        snap = p.outcome.value
        res = snap["res"]
        rec = {}
        for t, v in p.recorded:
            rec.setdefault(t, []).append(v)
        oc = (rec.get("outcome") or [None])[-1]
        if snap["leaked"]:
            add("state-leak", "a lexer that outlives the call is left inside the block-comment state when parse_source exits "
                "(%s after outcome %s): the next text is read as a comment up to its first */" % (res[0], oc))
        if oc is None:
            # the parser was never asked: only legitimate if parse_source raised by itself
            if res[0] == "return":
                add("result-replaced", "parse_source returns without calling the parser")
            continue
        lexed = (rec.get("lexed_text") or [None])[-1]
        if not (isinstance(lexed, SStr) and lexed.term.eq(T)):
            shown = str(lexed.term)[:100] if isinstance(lexed, Sym) else repr(lexed)[:100]
            add("text-transformed", "the text handed to the lexer is not parse_source's argument but %s" % shown)
        if len(rec.get("lexed_text", [])) != 1:
            add("text-transformed", "the lexer is run %d times" % len(rec.get("lexed_text", [])))
        streams, parsed = rec.get("stream", []), rec.get("parsed_stream", [])
        if not parsed or not streams or parsed[-1] is not streams[-1]:
            add("tokens-replaced", "the parser is not given the lexer's token stream itself (%s)" % type(parsed[-1] if parsed else None).__name__)
        if oc in ("lex_error", "yacc_error", "yacc_error_in_comment"):
            if res[0] != "raise":
                add("error-swallowed", "a %s raised while parsing does not leave parse_source: it returns %r" % (
                    "LexError" if oc == "lex_error" else "YaccError", res[1]))
            else:
                ok += 1
        elif oc == "in_comment":
            if res[0] != "raise":
                add("unterminated-accepted", "parse_source returns an AST although the lexer ended inside a block comment")
            else:
                ok += 1
        else:
            asts = rec.get("ast", [])
            if res[0] == "raise":
                add("valid-rejected", "parse_source raises %s although lexer and parser succeeded" % res[1])
            elif not asts or res[1] is not asts[-1]:
                add("result-replaced", "parse_source does not return the parser's result itself")
            else:
                ok += 1
    return findings, ok, run


def analyse_all():
    """PS-GLUE and LX-DRIVER together -> (findings, ok_paths, encoded functions, notes)"""
    from vf.props import driver
    f1, ok1, run1 = analyse()
    f2, ok2, run2 = driver.analyse()
    enc = dict(run1.encoded_digest())
    enc.update(run2.encoded_digest())
    return list(f1) + [("driver:" + c, d) for c, d in f2], ok1 + ok2, enc, sorted(set(run1.notes) | set(run2.notes))


RELEVANT = {
    "C06": {"accepts-ill-formed"},
    "C07": {"rejects-well-formed"},
    "C05": {"literal-changed"},
    "C08": {"literal-changed", "trivia-changes-meaning", "rejects-well-formed-trivia"},
}


def witnesses_for(prop, findings):
    """one search witness per failed obligation, asking for the discrepancy classes this property is about"""
    out = []
    for code, desc in findings:
        out.append({"kind": "glue_history" if code == "state-leak" else "glue_search", "classes": sorted(RELEVANT[prop]),
                    "obligation": code, "why": "%s(%s): %s" % ("LX-DRIVER" if code.startswith("driver:") else "PS-GLUE",
                                                               code.replace("driver:", ""), desc)})
    return out
