"""C03 -- weights partition the hash space exactly, in declared order.

deterministic_choice is executed from source (with CPython's bisect.py) for a concrete
weight vector and a symbolic hash position k in [0, 2^32); floats are bit-precise binary64.
Per leaf (selected index i) the solver is asked for a k outside
[K_i - 1, K_(i+1)] where K_j = ceil(W_j 2^32 / W_n) in exact rationals of the declared
decimals (the property's one-grid-point tolerance).  Further obligations: zero-weight
groups unreachable, k = 0 / 2^32-1 select the first / last positive group, groups spanning
>= 3 grid points are selectable, population/weights lists are position-aligned.
"""
from __future__ import annotations

import contextlib
import io

import z3

from vf import common, harness
from vf.common import Tally
from vf.families import weights as wf
from vf.pysym import api
from vf.pysym.explore import Return, Raise, Unsup, SymRaise
from vf.pysym.values import SStr, SInt, Sym, Unsupported
from vf.props import C12
from vf.ref import dsl
from vf.replay import enc

PROP = "C03"
BINNING = "pyab_experiment.binning.binning"
MAXK = 2 ** 32 - 1


def run_choice(population, weights=None, cum_weights=None, float_mode="fp"):
    uid = SStr(z3.String("input_id"))

    def setup(it):
        it.call_overrides["pyab_experiment.binning.binning:deterministic_proba"] = C12.proba_recorder
    kwargs = {}
    args = [uid, population]
    if weights is not None:
        args.append(weights)
    if cum_weights is not None:
        kwargs["cum_weights"] = cum_weights
    return api.run(api.call_module_function(BINNING, "deterministic_choice", args, kwargs),
                   opts={"float_mode": float_mode, "prune": False}, setup=setup)


def real_index(k, n, weights):
    from pyab_experiment.binning import binning
    real = binning.deterministic_proba
    binning.deterministic_proba = lambda s, _k=k: _k / 0x100000000
    try:
        return binning.deterministic_choice("x", list(range(n)), list(weights))
    except Exception as e:
        return "raised %s" % type(e).__name__
    finally:
        binning.deterministic_proba = real


def choice_witness(texts, weights, k, allowed, why):
    n = len(weights)
    return {"kind": "choice", "args": [enc("unit"), enc(list(range(n))), enc(list(weights))], "kwargs": {},
            "position_k": int(k), "expected": {"index_in": sorted(allowed)},
            "why": why, "plain": "weights %s, hash position k=%d (u=%r)" % (
                texts if len(texts) <= 12 else "%s ... (%d weights)" % (texts[:8], len(texts)), k, k / 2 ** 32)}


def allowed_indices(K, texts, k):
    out = []
    for i in range(len(texts)):
        if wf.exact(texts[i]) == 0:
            continue
        if K[i] - 1 <= k <= K[i + 1]:
            out.append(i)
    return out


def check_vector(item):
    texts, as_float, timeout_ms, exactness, part = item
    fast = exactness == "fast"      # vectors of code-derived sizes: short per-query budget, stop at the first witnesses
    if fast:
        exactness = False
        timeout_ms = min(timeout_ms, 15000)
    pj, pm = part
    common.setup_path()
    tally = Tally()
    out = {"status": "ok", "witnesses": [], "paths": 0, "reach": 0, "validated": 0, "encoded": {}, "stubs": [],
           "vector": texts, "exact_boundaries": 0, "inexact_boundaries": 0, "kind": "vector"}
    weights = [wf.value_of(t, as_float) for t in texts]
    n = len(weights)
    K = wf.boundaries(texts)
    run = run_choice(list(range(n)), weights)
    out["paths"] = len(run.paths)
    out["encoded"] = run.encoded_digest()
    out["stubs"] = run.notes
    pos = [i for i in range(n) if wf.exact(texts[i]) > 0]
    first_pos, last_pos = pos[0], pos[-1]
    leaves = {}
    for p in run.paths:
        if isinstance(p.outcome, Unsup):
            out["status"] = "inconclusive"
            out["note"] = p.outcome.reason
            continue
        ks = [v for t, v in p.recorded if t == "pos_k"]
        if isinstance(p.outcome, Raise):
            r, m = common.check(tally, p.conds, timeout_ms, label="C03 exception path")
            if r == "sat":
                kv = m.eval(ks[0], model_completion=True).as_long() if ks else 0
                out["witnesses"].append(choice_witness(texts, weights, kv, allowed_indices(K, texts, kv),
                                                       "valid weights raise %s" % p.outcome.exc_name))
            elif r == "unknown":
                out["status"] = "inconclusive"
                out["note"] = "unknown on exception path"
            continue
        i = p.outcome.value
        if not isinstance(i, int) or isinstance(i, bool) or len(ks) != 1:
            out["status"] = "inconclusive"
            out["note"] = "unexpected leaf outcome %r / %d hash positions" % (i, len(ks))
            continue
        k = ks[0]
        leaves.setdefault(i, []).append(p)
        if i % pm != pj:
            continue

        if fast and len(out["witnesses"]) >= 2:
            leaves = None
            break

        def ask(extra, label, sample=False):
            r, m = common.check(tally, list(p.conds) + extra, timeout_ms, label=label, keep_sample=sample, _retry=not fast)
            if r == "unknown":
                out["status"] = "inconclusive"
                out["note"] = "unknown on %s (%s)" % (label, texts)
                return None, None
            return r, m

        def viol(m, why):
            kv = m.eval(k, model_completion=True).as_long()
            out["witnesses"].append(choice_witness(texts, weights, kv, allowed_indices(K, texts, kv), why))

        if wf.exact(texts[i]) == 0:
            r, m = ask([], "C03 zero-weight group unreachable")
            if r == "sat":
                viol(m, "group %d has weight 0 but is selected" % i)
            continue
        lo, hi = K[i] - 1, K[i + 1]
        if lo > 0:
            r, m = ask([z3.ULT(k, z3.BitVecVal(lo, 32))], "C03 leaf %d: k < K_i - 1" % i, sample=(i == 1))
            if r == "sat":
                viol(m, "group %d selected below its share [K=%d)" % (i, K[i]))
        if hi < MAXK:
            r, m = ask([z3.UGT(k, z3.BitVecVal(hi, 32))], "C03 leaf %d: k > K_(i+1)" % i)
            if r == "sat":
                viol(m, "group %d selected above its share (K=%d]" % (i, K[i + 1]))
        if i != first_pos:
            r, m = ask([k == 0], "C03 u=0 selects the first positive group")
            if r == "sat":
                viol(m, "k=0 selects group %d, not the first positive-weight group %d" % (i, first_pos))
        # reachability twin / selectability; model validated against the real function
        mid = (K[i] + min(K[i + 1], MAXK + 1)) // 2
        r, m = (None, None)
        if K[i] <= mid <= MAXK:
            r, m = ask([k == mid], "C03 leaf reachable at the middle of its reference interval")
        if r != "sat":
            r, m = ask([], "C03 leaf reachable")
        if r == "sat":
            out["reach"] += 1
            kv = m.eval(k, model_completion=True).as_long()
            got = real_index(kv, n, weights)
            if got != i:
                out["status"] = "inconclusive"
                out["note"] = "translator validation: pysym leaf %d, real code %r at k=%d (%s)" % (i, got, kv, texts)
            else:
                out["validated"] += 1
        elif r == "unsat" and K[i + 1] - K[i] >= 3:
            kv = K[i] + 1
            out["witnesses"].append(choice_witness(texts, weights, kv, [i],
                                                   "group %d spans %d grid points but is never selected" % (i, K[i + 1] - K[i])))
        if exactness:
            r, m = ask([z3.Or(z3.ULT(k, z3.BitVecVal(K[i], 32)), z3.UGE(k, z3.BitVecVal(min(K[i + 1], MAXK), 32)))
                        if K[i + 1] <= MAXK else z3.ULT(k, z3.BitVecVal(K[i], 32))], "C03 exact (no tolerance)")
            if r == "unsat":
                out["exact_boundaries"] += 1
            elif r == "sat":
                out["inexact_boundaries"] += 1
    for i in (pos if leaves is not None else []):
        if pj == 0 and i not in leaves and K[i + 1] - K[i] >= 3:
            kv = K[i] + 1
            out["witnesses"].append(choice_witness(texts, weights, kv, [i],
                                                   "group %d spans %d grid points but no path selects it" % (i, K[i + 1] - K[i])))
    out["tally"] = tally
    out["part0"] = (pj == 0)
    return out


# ---- alignment of population / weights lists (obligation 6) ---------------------------
def alignment_programs():
    from vf.ref.dsl import Program, Ret, Group, Lit, If, Cmp, Id
    lists = [
        [("A", "1"), ("B", "2"), ("C", "3")],
        [("x", "0.5"), (7, "2"), (2.5, "0"), (-3, "1"), (-0.25, "4.75")],
        [(0, "1"), (1, "1")],
        [("only", "3")],
        [("a b", "10"), ("", "90")],
        [(str(i), str(i + 1)) for i in range(64)],
        [("dup", "1"), ("dup", "2"), ("z", "0")],
        # a label may be listed several times, not only next to itself, and labels equal under == may differ in type:
        # each OCCURRENCE owns its own interval in declared order
        [("off", "45"), ("on", "10"), ("off", "45")],
        [("a", "1"), ("b", "1"), ("a", "1"), ("b", "1"), ("a", "1")],
        [(1, "1"), (1.0, "1")],
        [(0, "2"), ("x", "1"), (0.0, "2")],
        [("z", "0"), ("y", "1"), ("z", "1")],
        # weights with many significant digits / extreme magnitudes must reach the generated code digit for digit
        [("p", "0.1234567"), ("q", "0.8765433")],
        [("p", "33.33333"), ("q", "33.33333"), ("r", "33.33334")],
        [("p", "1234567"), ("q", "7654321"), ("r", "1111111")],
        [("p", "999999.5"), ("q", "1000000.4"), ("r", "0.1")],
        [("p", "123456789.123456789"), ("q", "0.000000001"), ("r", "1000000000")],
        [("p", "0.30000000000000004"), ("q", "9007199254740993"), ("r", "0.1000000000000000055511151231257827")],
        [("p", "16777217"), ("q", "4294967297"), ("r", "2.5000000001")],
    ]
    out = []
    for gl in lists:
        groups = tuple(Group(Lit(v), wf.value_of(w, False), w) for v, w in gl)
        out.append(Program(name="al", body=Ret(groups, 0), salt=None, splitters=("uid",)))
        body = If(((Cmp(Id("f"), "==", Lit(1)), Ret(groups, 0)),), Ret(tuple(reversed(groups)), 1))
        out.append(Program(name="al2", body=body, salt="s", splitters=("uid",)))
    # every two-digit percentage split and a few three-digit / above-one ones: decimals whose product with a power of
    # ten is not the integer it looks like (0.29 * 100 = 28.999999999999996) are where a generator that rescales or
    # re-derives the weights goes wrong
    extra = [("0.%02d" % d, "0.%02d" % (100 - d)) for d in range(1, 100)]
    extra += [("1.15", "1.85"), ("0.58", "0.14", "0.28"), ("0.001", "0.999"), ("0.035", "0.965"), ("0.145", "0.855"),
              ("2.675", "1.005", "0.32"), ("4.35", "0.65"), ("8.7", "1.3"), ("0.7", "0.1", "0.2")]
    for ws in extra:
        groups = tuple(Group(Lit("pqrs"[i]), wf.value_of(w, False), w) for i, w in enumerate(ws))
        out.append(Program(name="al", body=Ret(groups, 0), salt=None, splitters=("uid",)))
    return out


def check_alignment(item):
    prog, timeout_ms = item
    common.setup_path()
    tally = Tally()
    out = {"status": "ok", "witnesses": [], "paths": 0, "reach": 0, "validated": 0, "encoded": {}, "stubs": [],
           "kind": "alignment", "exact_boundaries": 0, "inexact_boundaries": 0}
    text = dsl.program_text(prog)
    out["text"] = text
    gen = harness.real_generate(text)
    if gen.error or gen.text is None:
        out["status"] = "nocompile"
        out["note"] = str(gen.error)
        out["tally"] = tally
        return out
    from vf import keyrun
    kr = keyrun.keyed_run(prog, {}, gen=gen, text=text)
    out["paths"] = len(kr.run.paths)
    out["encoded"] = kr.run.encoded_digest()
    rets = {r.label: r for r in dsl.returns(prog.body)}
    seen = set()
    for p in kr.run.paths:
        if not (isinstance(p.outcome, Return) and isinstance(p.outcome.value, harness.Choice)):
            continue
        ch = p.outcome.value
        # identify the return statement by the reference routing on a model of this path
        r, m = common.check(tally, p.conds, timeout_ms, label="C03 alignment path")
        if r != "sat":
            continue
        fields = {k: harness.model_value(m, v) for k, v in kr.env.items()}
        lab = dsl.concrete_select(prog.body, fields)
        seen.add(lab)
        ref = rets[lab]
        want_pop = [g.value.value for g in ref.groups]
        want_w = [float(wf.exact(g.weight_text)) for g in ref.groups]
        pop, w = ch.population, ch.weights
        ok = (isinstance(pop, list) and isinstance(w, list) and len(pop) == len(want_pop) == len(w) and
              all(type(a) is type(b) and a == b for a, b in zip(pop, want_pop)) and
              all(isinstance(a, (int, float)) and not isinstance(a, bool) and a == b for a, b in zip(w, want_w)))
        out["reach"] += 1
        if not ok:
            # the choice function is handed something else than the declared lists (running totals computed at
            # generation time, a tuple, a repeated population ...): that is only a defect if it selects differently.
            # Decide it on the real choice function: all hash positions, emitted arguments, against the exact partition
            # of the DECLARED weights (one grid point of tolerance at each boundary, as everywhere in C03)
            allf = dict(fields)
            allf["uid"] = "u"
            texts_ = [g.weight_text for g in ref.groups]
            semantic_alignment(out, tally, timeout_ms, text, allf, lab, ch, want_pop, texts_)
    out["tally"] = tally
    return out


def _short(v):
    r = repr(v)
    return r if len(r) <= 90 else r[:60] + " ... " + r[-20:] + " (%d items)" % len(v)


def _concrete_seq(v):
    return isinstance(v, (list, tuple)) and not any(isinstance(e, Sym) for e in v)


def semantic_alignment(out, tally, timeout_ms, text, fields, lab, ch, want_pop, texts):
    pop, w, cw = ch.population, ch.weights, ch.cum_weights
    if not _concrete_seq(pop) or (w is not None and not _concrete_seq(w)) or (cw is not None and not _concrete_seq(cw)):
        out["status"] = "inconclusive"
        out["note"] = "choice arguments of return #%d are not concrete sequences" % lab
        return
    K = wf.boundaries(texts)
    run = run_choice(IdxLabels(pop), w, cw)
    out["paths"] += len(run.paths)
    out["encoded"].update(run.encoded_digest())
    for p in run.paths:
        if isinstance(p.outcome, Unsup):
            r, m = common.check(tally, p.conds, timeout_ms)
            if r != "unsat":
                out["status"] = "inconclusive"
                out["note"] = "emitted choice arguments: " + p.outcome.reason
            continue
        ks = [v for t, v in p.recorded if t == "pos_k"]
        if len(ks) != 1:
            r, m = common.check(tally, p.conds, timeout_ms)
            if r != "unsat":
                out["status"] = "inconclusive"
                out["note"] = "emitted choice arguments: %d hash positions on a path" % len(ks)
            continue
        k = ks[0]
        if isinstance(p.outcome, Raise):
            extra = []
            why = "the choice over the emitted arguments raises %s" % p.outcome.exc_name
        else:
            idx = p.outcome.value
            if not (isinstance(idx, tuple) and len(idx) == 2 and idx[0] == "label-at" and isinstance(idx[1], int)
                    and 0 <= idx[1] < len(pop)):
                out["status"] = "inconclusive"
                out["note"] = "emitted choice arguments: unexpected outcome %r" % (idx,)
                continue
            label = pop[idx[1]]
            owners = [i for i, v in enumerate(want_pop) if type(v) is type(label) and v == label and wf.exact(texts[i]) > 0]
            def inside(i):
                lo, hi = max(K[i] - 1, 0), min(K[i + 1], MAXK)
                return z3.And(z3.UGE(k, z3.BitVecVal(lo, 32)), z3.ULE(k, z3.BitVecVal(hi, 32)))
            extra = [z3.Not(z3.Or(*[inside(i) for i in owners]))] if owners else []
            why = "emitted arguments select %r outside the interval the declared weights give it" % (label,)
        r, m = common.check(tally, list(p.conds) + extra, timeout_ms, label="C03 emitted choice arguments vs declared partition",
                            keep_sample=True)
        if r == "unknown":
            out["status"] = "inconclusive"
            out["note"] = "unknown on emitted-arguments query"
        elif r == "sat":
            kv = m.eval(k, model_completion=True).as_long()
            allowed = [want_pop[i] for i in allowed_indices(K, texts, kv)]
            out["witnesses"].append({"kind": "program_position", "text": text, "fields": {a: enc(b) for a, b in fields.items()},
                                     "position_k": kv, "allowed": enc(allowed),
                                     "why": "return #%d: %s (population %s weights %s cum_weights %s)" % (
                                         lab, why, _short(pop), _short(w), _short(cw)),
                                     "plain": "hash position k=%d" % kv})
            return


class IdxLabels:
    """the emitted population: subscripting reports the position (labels may repeat)"""
    pysym_pytype = list

    def __init__(self, pop):
        self.pop = pop
        if isinstance(pop, tuple):
            self.pysym_pytype = tuple

    def pysym_len(self, ctx):
        return len(self.pop)

    def pysym_getitem(self, ctx, idx):
        n = len(self.pop)
        if isinstance(idx, SInt):
            # symbolic position (unweighted path): fork per DISTINCT label, plus the out-of-range case
            firsts = []
            for j, v in enumerate(self.pop):
                if not any(type(self.pop[f]) is type(v) and self.pop[f] == v for f in firsts):
                    firsts.append(j)
            c = ctx.choose(len(firsts) + 1, label="emitted population subscript")
            if c == len(firsts):
                ctx.assume(z3.Or(idx.term < -n, idx.term >= n))
                raise SymRaise(IndexError("list index out of range"))
            f = firsts[c]
            same = [j for j, v in enumerate(self.pop) if type(v) is type(self.pop[f]) and v == self.pop[f]]
            ctx.assume(z3.Or(*[z3.Or(idx.term == j, idx.term == j - n) for j in same]))
            return ("label-at", f)
        if isinstance(idx, Sym) or isinstance(idx, bool) or not isinstance(idx, int):
            raise Unsupported("subscript of the emitted population with %s" % type(idx).__name__)
        if not -n <= idx < n:
            raise SymRaise(IndexError("list index out of range"))
        return ("label-at", idx % n)


def proba_real(ctx, interp, args, kwargs):
    k = z3.Int(ctx.fresh_name("pos_k"))
    ctx.assume(z3.And(k >= 0, k < 2 ** 32))
    ctx.recorded.append(("pos_k", k))
    from vf.pysym.values import SReal
    return SReal(z3.ToReal(k) / z3.RealVal(2 ** 32))


def check_symbolic_weights(item):
    """Obligation (5): ALL integer weight vectors of length n with 0 <= w_i < 2^16 (not all zero) and ALL hash
    positions, in the exact regime: there every float operation of deterministic_choice is exact (k < 2^32 and
    total < 2^20 give k * total < 2^53; prefix sums are integers below 2^53), so exact-real execution IS the binary64
    execution; the side condition is itself put to the solver."""
    n, timeout_ms = item
    common.setup_path()
    from vf.pysym.values import SInt
    tally = Tally()
    out = {"status": "ok", "witnesses": [], "paths": 0, "reach": 0, "validated": 0, "encoded": {}, "stubs": [],
           "kind": "symbolic", "exact_boundaries": 0, "inexact_boundaries": 0, "part0": False, "vector": ["symbolic"] * n}
    ws = [SInt(z3.Int("w%d" % i)) for i in range(n)]
    bounds = [z3.And(w.term >= 0, w.term < 2 ** 16) for w in ws] + [z3.Sum([w.term for w in ws]) > 0]

    def setup(it):
        it.call_overrides["pyab_experiment.binning.binning:deterministic_proba"] = proba_real
    run = api.run(api.call_module_function(BINNING, "deterministic_choice", [SStr(z3.String("input_id")), list(range(n)), ws]),
                  opts={"float_mode": "real", "prune": True, "prune_timeout_ms": 5000}, setup=setup, assumptions=bounds)
    out["paths"] = len(run.paths)
    out["encoded"] = run.encoded_digest()
    out["stubs"] = run.notes
    W = [z3.IntVal(0)]
    for w in ws:
        W.append(W[-1] + w.term)
    # exactness side condition
    kk = z3.Int("k_side")
    r, m = common.check(tally, bounds + [kk >= 0, kk < 2 ** 32, kk * W[n] >= 2 ** 53], timeout_ms,
                        label="C03(5) exact regime: k * total < 2^53 for all bounded weights")
    if r != "unsat":
        out["status"] = "inconclusive"
        out["note"] = "exactness side condition not discharged"
    for p in run.paths:
        if isinstance(p.outcome, Unsup):
            r, m = common.check(tally, p.conds, timeout_ms)
            if r != "unsat":
                out["status"] = "inconclusive"
                out["note"] = "unsupported: " + p.outcome.reason
            continue
        ks = [v for t, v in p.recorded if t == "pos_k"]
        if isinstance(p.outcome, Raise):
            r, m = common.check(tally, p.conds, timeout_ms, label="C03(5) valid symbolic weights raise")
            if r == "sat":
                wv = [m.eval(w.term, model_completion=True).as_long() for w in ws]
                out["witnesses"].append(choice_witness([str(x) for x in wv], [float(x) for x in wv], 0, list(range(n)),
                                                       "valid integer weights %s raise %s" % (wv, p.outcome.exc_name)))
            continue
        i = p.outcome.value
        k = ks[0]
        good = z3.And(W[i] * 2 ** 32 <= k * W[n], k * W[n] < W[i + 1] * 2 ** 32)
        r, m = common.check(tally, list(p.conds) + [z3.Not(good)], min(timeout_ms, 30000),
                            label="C03(5) symbolic integer weights, n=%d leaf %d: k outside [W_i, W_i+1) * 2^32 / W_n" % (n, i),
                            keep_sample=(i == 0), _retry=False)
        if r == "unknown":
            out["status"] = "inconclusive"
            out["note"] = "unknown on symbolic-weights leaf"
        elif r == "sat":
            wv = [m.eval(w.term, model_completion=True).as_long() for w in ws]
            kv = m.eval(k, model_completion=True).as_long()
            texts = [str(x) for x in wv]
            out["witnesses"].append(choice_witness(texts, [float(x) for x in wv], kv,
                                                   allowed_indices(wf.boundaries(texts), texts, kv),
                                                   "integer weights %s: group %d selected outside its exact share" % (wv, i)))
        r, m = common.check(tally, list(p.conds) + [k == 0] + [w.term == 1 for w in ws], timeout_ms)
        if r == "sat":
            out["reach"] += 1
        elif i == 0:
            out["status"] = "inconclusive"
            out["note"] = "vacuity twin failed for the first leaf"
    out["tally"] = tally
    return out


def _dispatch(a):
    if a[0] == "symbolic":
        return check_symbolic_weights(a[1:])
    if a[0] == "proba":
        r = C12.lemma_proba(a[1])
        r.update({"kind": "grid", "validated": 0, "exact_boundaries": 0, "inexact_boundaries": 0})
        return r
    if a[0] == "align":
        return check_alignment(a[1:])
    return check_vector(a)


def main(tier):
    common.setup_path()
    rep = common.Reporter(PROP)
    timeout_ms = 60000 if tier == "quick" else 600000
    fam = wf.family(tier, common.seed())
    items = [("proba", timeout_ms)]
    def parts(v):
        m = max(1, (len(v) + 3) // 4)
        return [(j, m) for j in range(m)]
    for v in fam:
        for part in parts(v):
            items.append((v, True, timeout_ms, tier == "thorough", part))
    for v in fam[:12] if tier != "thorough" else fam[:200]:
        if all("." not in t for t in v):
            for part in parts(v):
                items.append((v, False, timeout_ms, False, part))   # ints passed as ints (direct API use)
    # sizes read off the implementation: vectors just below, at and above every group-count threshold the choice function
    # branches on (none on the pinned tree; a fast path for "large" populations would show up here)
    from vf.props import sizes
    derived = [s_ for s_ in sizes.sizes_around() if s_ not in {len(v) for v in fam}]
    for s_ in derived:
        shapes = [[str(i % 7 + 1) for i in range(s_)], [("0" if i % 2 else "3") for i in range(s_)] if s_ > 1 else ["3"]]
        if tier == "thorough":
            shapes.append([("0.1" if i % 3 else "2.5") for i in range(s_)])
        for v in shapes:
            m = min(8, max(1, (len(v) + 3) // 4))
            for j in range(m):
                items.append((v, True, timeout_ms, "fast", (j, m)))
    for p in alignment_programs():
        items.append(("align", p, timeout_ms))
    for n in ([1, 2, 3, 4] if tier == "quick" else [1, 2, 3, 4, 5, 6, 8]):
        items.append(("symbolic", n, timeout_ms))
    # long vectors first (better load balance)
    results = common.pmap(_dispatch, items, chunksize=1)
    total = Tally()
    encoded, stubs = {}, set()
    n_paths = reach = valid = n_vec = exact = inexact = n_align = 0
    for r in results:
        total.merge(r["tally"])
        n_paths += r["paths"]
        reach += r.get("reach", 0)
        valid += r.get("validated", 0)
        exact += r["exact_boundaries"]
        inexact += r["inexact_boundaries"]
        encoded.update(r.get("encoded") or {})
        stubs.update(r.get("stubs") or [])
        n_vec += (r["kind"] == "vector" and r.get("part0", False))
        n_align += r["kind"] == "alignment"
        if r["status"] == "inconclusive":
            rep.inconc(r.get("note", "?"))
        elif r["status"] == "nocompile":
            rep.inconc("alignment program does not compile: %s" % r.get("note"))
        for w in r["witnesses"]:
            if len(rep.violations) >= 5:
                break
            payload = dict(w)
            payload["property"] = PROP
            plain = payload.pop("plain", "")
            o = common.run_replay_subprocess(payload)
            payload["replay_result"] = o
            summary = "%s; %s | %s" % (w["why"], plain, o.get("observed", ""))
            if o.get("reproduced"):
                rep.violation(payload, summary)
            else:
                rep.inconc("witness did not reproduce: " + summary)
    coverage = {
        "programs": n_vec + n_align,
        "disagreements_checked": total.unsat + total.sat,
        "samples": total.samples[:4] or [{"note": "none"}],
        "weight_vectors": n_vec,
        "symbolic_integer_weight_lengths": [r["vector"].__len__() for r in results if r["kind"] == "symbolic"],
        "alignment_programs": n_align,
        "paths": n_paths,
        "reachability_twins_passed": reach,
        "traces_validated_against_impl": valid,
        "leaves_exact_without_tolerance": exact,
        "leaves_needing_the_one_point_tolerance": inexact,
        "queries": total.as_dict(),
        "functions_encoded": encoded,
        "stubs_used": sorted(stubs) + ["deterministic_proba replaced by k/2^32 for a fresh 32-bit k (justified by lemma L1 "
                                       "run in this check: proba(s) = top32(MD5)/2^32)"],
        "bounds": "per weight vector: all 2^32 hash positions, bit-precise binary64; vectors: %d members of the family "
                  "(alphabet %s up to n=4, structured vectors up to n=64); additionally ALL integer weight vectors with "
                  "0 <= w_i < 2^16 for the listed lengths in the exact regime (side condition k*total < 2^53 discharged); "
                  "symbolic decimal weights and integer weights >= 2^16 are outside the claim (symbolic x symbolic fp.mul does "
                  "not finish)" % (n_vec, wf.ALPHABET),
    }
    common.write_evidence(PROP, "translation_validation", coverage,
                          ["reference partition uses the exact rationals of the declared decimal weights",
                           "CPython's bisect.py (pure-Python source) stands for the C accelerator _bisect",
                           "int/int true division correctly rounded (IEEE fp.div on exactly representable operands)"],
                          rep.wall, len(rep.violations), tier)
    print("C03: %d vectors, %d alignment programs, %d paths, queries %s, exact leaves %d / tolerance needed %d, wall %.1fs"
          % (n_vec, n_align, n_paths, total.as_dict(), exact, inexact, rep.wall))
    return rep.exit_code()
