"""C11, representation-independent part: the evaluator observed only through its public surface.

The step analysis in C11.py states its invariant over the attributes `_checksum` and `run_experiment`.  An evaluator
that keeps the same information elsewhere (a record behind a property, a fingerprint of another shape) is as correct,
so this second analysis never looks at attributes.  For three bounded pre-histories

    H1: new(t_old)                      H2: new(t_0); recompile(t_old)            H3: new(t_old); recompile(t_bad) fails

(all compile steps of the pre-history forced to their stated outcome, every successfully compiled text installing a
function that answers with its own tag) it executes, from source and with symbolic texts,

    recompile(t_new) [abstract outcome]; call; recompile(t_new) again [same outcome]; call; call on a bystander

and requires: success => the new function answers, also after the repeated recompile; failure => recompile raises,
the previously accepted function still answers, the repeated recompile raises again; a recompile that never reaches
the parser is only allowed when t_new is the accepted text (digests assumed collision-free), and is a no-op; the
bystander evaluator built before the step still answers with its own function; nothing but the evaluator itself is
written.  Pre-histories are bounded (length <= 2): the argument that longer histories reach no other kind of state is
the one of DESIGN.md section 6 C11 and is not machine-checked.
"""
from __future__ import annotations

import z3

from vf import common, harness
from vf.common import Tally
from vf.pysym import api
from vf.pysym.explore import Return, Raise, Unsup, SymRaise
from vf.pysym.interp import PyInstance
from vf.pysym.values import SStr, Sym

EVAL = harness.EVAL_MODULE
OUTCOMES = ["ok", "parse_none", "parse_raises", "codegen_syntax_error"]


class FakeAST:
    def __init__(self, id_):
        self.id = id_

    def pysym_getattr(self, ctx, interp, name):
        if name == "id":
            return self.id
        raise SymRaise(AttributeError(name))

    def pysym_eq(self, ctx, other):
        return self is other


def fn_text(tag, bad=False):
    if bad:
        return "def %s(a, a, **kwargs):\n    return 1\n" % tag
    return "def %s(**kwargs):\n    return (%r, kwargs)\n" % (tag, tag)


def scenario(history):
    """entry(interp) -> observation dict.  The compile stub follows a script: forced outcomes for the pre-history and the
    bystander, a free choice at the step, the same outcome again at the repetition."""
    def setup(it):
        state = {"script": [], "calls": 0, "step_outcome": None}
        it._c11b = state

        def parse_stub(ctx, interp, args, kwargs):
            i = state["calls"]
            state["calls"] += 1
            text = args[0] if args else kwargs.get("text")
            if state["script"]:
                oc, tag = state["script"].pop(0)
            elif state["step_outcome"] is None:
                k = ctx.choose(len(OUTCOMES), label="compile outcome of the step")
                oc, tag = OUTCOMES[k], "fn_new"
                state["step_outcome"] = oc
            else:
                oc, tag = state["step_outcome"], "fn_new"
            ctx.recorded.append(("compile", (i, oc, tag, text)))
            state["last"] = (oc, tag)
            if oc == "parse_none":
                return None
            if oc == "parse_raises":
                raise SymRaise(RuntimeError("lexer/parser rejected the text"))
            return FakeAST(tag)

        def gen_init(ctx, interp, args, kwargs):
            return None

        def gen_generate(ctx, interp, args, kwargs):
            oc, tag = state["last"]
            return fn_text(tag, bad=(oc == "codegen_syntax_error"))
        it.call_overrides["parse_source"] = parse_stub
        it.call_overrides["PythonCodeGen.__init__"] = gen_init
        it.call_overrides["PythonCodeGen.generate"] = gen_generate

    def attempt(it, f):
        try:
            return ("return", f())
        except SymRaise as e:
            return ("raise", getattr(getattr(e.exc, "pyclass", None), "name", type(e.exc).__name__))

    def who(res):
        if res[0] == "return" and isinstance(res[1], tuple) and len(res[1]) == 2 and isinstance(res[1][0], str):
            return res[1][0]
        return res

    def entry(it):
        st = it._c11b
        env = it.import_module(EVAL)
        cls = env.vars["ExperimentEvaluator"]
        t_old, t_new = SStr(z3.String("t_old")), SStr(z3.String("t_new"))
        t_0, t_bad, t_other = SStr(z3.String("t_0")), SStr(z3.String("t_bad")), SStr(z3.String("t_other"))
        x = SStr(z3.String("arg_x"))
        # bystander
        st["script"] = [("ok", "fn_other")]
        other = it.call(cls, [t_other], {})
        # pre-history
        if history == "H1":
            st["script"] = [("ok", "fn_old")]
            inst = it.call(cls, [t_old], {})
        elif history == "H2":
            st["script"] = [("ok", "fn_0"), ("ok", "fn_old")]
            inst = it.call(cls, [t_0], {})
            it.call(it.getattr(inst, "recompile"), [t_old], {})
        else:
            st["script"] = [("ok", "fn_old"), ("parse_raises", "-")]
            inst = it.call(cls, [t_old], {})
            r = attempt(it, lambda: it.call(it.getattr(inst, "recompile"), [t_bad], {}))
            if r[0] != "raise" and not st["script"]:
                return {"setup_problem": "a failing recompile in the pre-history did not raise"}
        if st["script"]:
            # the pre-history skipped a compile (e.g. recompile(t_old) judged 'unchanged' against t_0): only possible
            # when the texts coincide; such paths are the business of the step analysis from H1
            return {"setup_skipped": True}
        st["script"] = []
        n_before = st["calls"]
        it.ctx.begin_call()
        obs = {"history": history}
        obs["r1"] = attempt(it, lambda: it.call(it.getattr(inst, "recompile"), [t_new], {}))
        obs["parsed1"] = st["calls"] - n_before
        obs["outcome"] = st["step_outcome"]
        obs["who1"] = who(attempt(it, lambda: it.call(inst, [], {"uid": x})))
        n_mid = st["calls"]
        obs["r2"] = attempt(it, lambda: it.call(it.getattr(inst, "recompile"), [t_new], {}))
        obs["parsed2"] = st["calls"] - n_mid
        obs["who2"] = who(attempt(it, lambda: it.call(inst, [], {"uid": x})))
        obs["who_other"] = who(attempt(it, lambda: it.call(other, [], {"uid": x})))
        obs["direct"] = who(attempt(it, lambda: it.call(it.getattr(inst, "run_experiment"), [], {"uid": x})))
        obs["inst"], obs["other"] = inst, other
        return obs
    return entry, setup


def _digest_apps(terms):
    apps = {}
    seen = set()

    def walk(t):
        if t.get_id() in seen:
            return
        seen.add(t.get_id())
        if z3.is_app(t) and t.decl().kind() == z3.Z3_OP_UNINTERPRETED and t.decl().name().endswith("_utf8") and t.num_args() == 1:
            apps.setdefault(t.decl().name(), []).append(t)
        for c in t.children():
            walk(c)
    for t in terms:
        walk(t)
    return apps


def collision_free(conds):
    out = []
    for name, apps in _digest_apps(conds).items():
        for i in range(len(apps)):
            for j in range(i + 1, len(apps)):
                out.append(z3.Implies(apps[i] == apps[j], apps[i].arg(0) == apps[j].arg(0)))
    return out


def analyse(history, timeout_ms):
    common.setup_path()
    tally = Tally()
    out = {"status": "ok", "witnesses": [], "paths": 0, "reach": 0, "encoded": {}, "stubs": [], "name": "behavioural " + history}
    entry, setup = scenario(history)
    run = api.run(entry, opts={"float_mode": "real", "prune": True}, setup=setup)
    out["paths"] = len(run.paths)
    out["encoded"] = run.encoded_digest()
    out["stubs"] = run.notes
    t_old, t_new = z3.String("t_old"), z3.String("t_new")

    def bad(scn, why):
        out["witnesses"].append({"kind": "lifecycle_search", "scenario": "behavioural-" + scn,
                                 "why": "%s (%s)" % (why, history), "plain": ""})
    for p in run.paths:
        if isinstance(p.outcome, Unsup):
            r, m = common.check(tally, p.conds, timeout_ms)
            if r != "unsat":
                out["status"] = "inconclusive"
                out["note"] = "unsupported on feasible path: " + p.outcome.reason
            continue
        if isinstance(p.outcome, Raise):
            out["status"] = "inconclusive"
            out["note"] = "harness entry raised %s" % p.outcome.exc_name
            continue
        o = p.outcome.value
        if o.get("setup_skipped"):
            continue
        if o.get("setup_problem"):
            bad("setup", o["setup_problem"])
            continue
        conds = list(p.conds) + collision_free(p.conds)
        r, m = common.check(tally, conds, timeout_ms, label="C11b path reachable (%s)" % history)
        if r == "unsat":
            continue
        if r == "unknown":
            out["status"] = "inconclusive"
            out["note"] = "unknown on reachability"
            continue
        out["reach"] += 1
        prev = "fn_old"
        if o["who_other"] != "fn_other":
            bad("isolation", "after the step a bystander evaluator answers %r instead of its own function" % (o["who_other"],))
        own = lambda e: e[0] == "attr-store" and e[1] is o["inst"]
        foreign = [e for e in p.effects if not own(e)]
        if foreign:
            bad("isolation", "the step writes outside the evaluator: %s" % [(e[0], str(e[2])[:30]) for e in foreign][:3])
        if o["parsed1"] == 0:
            # the parser was never reached: allowed only for the accepted text, and then nothing may change
            r2, m2 = common.check(tally, conds + [t_old != t_new], timeout_ms, keep_sample=True,
                                  label="C11b compilation skipped although the text differs (%s)" % history)
            if r2 == "sat":
                bad("stale", "recompile(t_new) does not reach the parser although t_new differs from the accepted text")
            elif r2 == "unknown":
                out["status"] = "inconclusive"
            if o["r1"][0] != "return" or o["who1"] != prev or o["who2"] != prev:
                bad("noop", "recompiling the accepted text is not a no-op: %r then %r answers" % (o["r1"][0], o["who1"]))
            continue
        oc = o["outcome"]
        if oc == "ok":
            if o["r1"][0] != "return" or o["who1"] != "fn_new":
                bad("ok", "after a successful recompile %r answers (recompile: %s)" % (o["who1"], o["r1"][0]))
            if o["r2"][0] != "return" or o["who2"] != "fn_new":
                bad("ok", "recompiling the same accepted text again: %s, then %r answers" % (o["r2"][0], o["who2"]))
            if o["direct"] != o["who2"]:
                bad("ok", "run_experiment and __call__ disagree: %r / %r" % (o["direct"], o["who2"]))
        else:
            if o["r1"][0] != "raise":
                bad("swallow", "a compile failure (%s) does not raise" % oc)
            if o["who1"] != prev:
                bad("atomic", "after a failed recompile (%s) %r answers instead of the accepted function" % (oc, o["who1"]))
            if o["r2"][0] != "raise":
                bad("repeat", "the same invalid text is accepted silently the second time (%s)" % oc)
            if o["who2"] != prev:
                bad("atomic", "after two failed recompiles (%s) %r answers" % (oc, o["who2"]))
    out["tally"] = tally
    return out
