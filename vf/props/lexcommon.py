"""Shared driver for the lexical lemmas (used by C06, C07, C08)."""
from __future__ import annotations

from vf import common
from vf.lexsym import lemmas, model, rx
from vf.ref import tokens as ref
from vf.replay import enc


def run(groups):
    """groups subset of {'accept','only','reject','trivia','block','values'} -> (analysis, info)"""
    A = lemmas.LexAnalysis()
    if A.unsupported:
        raise common.Inconclusive("token function outside the pysym subset: %s" % A.unsupported[:2])
    A.oracle_selfcheck()
    twins = 0
    if "accept" in groups:
        for c in ref.all_classes():
            if not c.trivia:
                A.accept(c.name)
                twins += 1
    if "only" in groups:
        for r in A.main.rules:
            if lemmas.rule_behaviour(A.main, r, A.effects)["kind"] == "token":
                A.only(r)
    if "reject" in groups:
        A.reject()
        twins += 1
    if "trivia" in groups:
        A.trivia()
    if "block" in groups:
        A.block_comments()
    if "values" in groups:
        A.values()
    info = {
        "rules": {st.name: [{"rule": r.name, "pattern": r.pattern, "policy": r.policy, "policy_justification": r.policy_why,
                             "guard": None if r.guard is None else "next character not in a set of %d ranges" % len(r.guard[1]),
                             "effect": lemmas.rule_behaviour(st, r, A.effects)["kind"]} for r in st.rules]
                  for st in A.states.values()},
        "alphabet_blocks": rx.ALPHA.describe(),
        "twins": twins,
        "discharged": list(A.discharged),
    }
    return A, info


def witness_payload(f):
    """lexical finding -> replay payload"""
    lemma, text = f["lemma"], f["text"]
    if f["class"] in ("BLOCK_COMMENT_END", "BLOCK_COMMENT") or "inside a comment" in f["desc"]:
        full = "/*" + text + "\n zz_probe"
    else:
        full = text
    return {"kind": "lex_first", "text": enc(full), "why": "%s(%s): %s" % (lemma, f["class"], f["desc"]),
            "lexeme": enc(f["lexeme"]), "rest": enc(f["rest"])}
