"""C08 -- comments and whitespace never change meaning.

One-step lemmas over the live lexer rules, unbounded in the length of the text and in the
number / shape of comments:
  LX-TRIVIA(ws / newline / line comment), the block-comment simulation (opener; (A) a chunk
  without '*/' is consumed and the state kept; (B) the comment ends at the FIRST '*/'),
  LX-ACCEPT(c) for every token class in every right context (so a token followed by trivia keeps
  its boundary and value, and trivia-looking text inside a string literal stays in the string),
  LX-ONLY for every ignore rule (only trivia is ever dropped).
With the induction argument of DESIGN.md 4.2 the token stream, hence the AST, is invariant.
Translator validation: trivia variants of family programs through the real parser (AST equality).
"""
from __future__ import annotations

import random

from vf import common, harness
from vf.common import Tally
from vf.props import lexcommon
from vf.ref import dsl, tokens as reftok
from vf.replay import enc

PROP = "C08"

TRIVIA = [" ", "\n", "\t", "  \n ", "// c\n", "/* c */", "/* a */ /* b */", "/* \" ' */", "/* // */", "/* * / */",
          "/*\n multi\n line */", "// /* \n", "/* if return \"x\" weighted */", "\r\n", "/**/", "/***/", "/* ** */ "]


def variants(text, rng, n):
    """insert random trivia between the reference tokens of `text`"""
    toks = []
    i = 0
    # reference token boundaries via the reference tokenizer's lexemes
    pos = 0
    out = []
    try:
        ref_toks = reftok.py_tokenize(text)
    except reftok.RefLexError:
        return []
    lexemes = [t[1] for t in ref_toks]
    res = []
    for _ in range(n):
        parts = [rng.choice(TRIVIA) if rng.random() < 0.5 else ""]
        for lx in lexemes:
            parts.append(lx)
            k = rng.random()
            if k < 0.45:
                parts.append(rng.choice(TRIVIA))
            elif k < 0.6:
                parts.append(rng.choice(TRIVIA) + rng.choice(TRIVIA))
            else:
                parts.append(" ")
        res.append("".join(parts))
    return res


def main(tier):
    common.setup_path()
    rep = common.Reporter(PROP)
    rng = random.Random(common.seed())
    A, info = lexcommon.run({"accept", "trivia", "block", "only", "values"})
    witnesses = []
    for f in A.findings:
        witnesses.append(lexcommon.witness_payload(f))
    # translator validation: trivia variants parse to the same AST
    from vf.families import programs as pf
    from pyab_experiment.utils.wraper_functions import parse_source
    import contextlib
    import io
    progs = pf.documented_programs() + pf.single_predicate_programs()[:: (12 if tier == "quick" else 3)]
    n_valid = 0
    for p in progs:
        base = dsl.program_text(p)
        try:
            with contextlib.redirect_stdout(io.StringIO()), contextlib.redirect_stderr(io.StringIO()):
                a0 = parse_source(base)
        except Exception as e:
            continue
        for v in variants(base, rng, 3 if tier == "quick" else 10):
            n_valid += 1
            try:
                with contextlib.redirect_stdout(io.StringIO()), contextlib.redirect_stderr(io.StringIO()):
                    a1 = parse_source(v)
                same = a1 is not None and a1 == a0
            except Exception as e:
                same = False
            if not same and len(witnesses) < 12:
                witnesses.append({"kind": "ast_equal", "a": enc(base), "b": enc(v),
                                  "why": "a trivia variant of a family program does not parse to the same AST"})
    from vf.props import glue
    try:
        gfind, gok, genc, gnotes = glue.analyse_all()
        witnesses += glue.witnesses_for(PROP, gfind)
    except common.Inconclusive as e:
        rep.inconc(str(e))
    seen = set()
    for w in witnesses:
        if len(rep.violations) >= 6:
            break
        key = w["why"][:70]
        if key in seen:
            continue
        seen.add(key)
        payload = dict(w)
        payload["property"] = PROP
        o = common.run_replay_subprocess(payload)
        payload["replay_result"] = o
        summary = "%s | %s" % (w["why"], o.get("observed", ""))
        if o.get("reproduced"):
            rep.violation(payload, summary)
        else:
            rep.inconc("witness did not reproduce: " + summary)
    tally = A.tally
    coverage = {
        "states": sum(len(v) for v in info["rules"].values()),
        "transitions": len(info["discharged"]),
        "traces_validated_against_impl": n_valid,
        "samples": tally.samples[:5] or [{"note": "none"}],
        "lexer_rules": info["rules"],
        "alphabet_blocks": info["alphabet_blocks"],
        "lemmas_discharged": info["discharged"],
        "reachability_twins_passed": info["twins"],
        "queries": tally.as_dict(),
        "bounds": "no bound on text length, number, shape or content of comments; one lexer step from any position in "
                  "either lexer state; the induction over steps is argued in DESIGN.md, not machine-checked; the marker code "
                  "point U+E000 does not occur in texts",
    }
    common.write_evidence(PROP, "model_checking", coverage,
                          ["Python re match policy per rule as characterised (justified by solver queries)",
                           "alphabet abstraction by minterms of the character classes in use",
                           "reference: trivia = whitespace, // to end of line, /* to the first */"],
                          rep.wall, len(rep.violations), tier)
    print("C08: %d lemmas discharged, %d trivia variants validated, queries %s, wall %.1fs" % (
        len(info["discharged"]), n_valid, tally.as_dict(), rep.wall))
    return rep.exit_code()
