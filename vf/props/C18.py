"""C18 -- confidence-interval helpers are well-formed and as documented.

probit and confidence_interval are executed from source in exact-real mode (math.log an
uninterpreted function with monotonicity/sign axioms instantiated by hand, x**0.5 the
non-negative root).  Compositional: (A) lemmas on probit (sign, symmetry, monotonicity);
(B) the interval algebra for an arbitrary z >= 0 returned by probit (z3 NRA).
Outside: the relation of z to the true normal quantile (transcendental), binary64 rounding.
"""
from __future__ import annotations

import fractions
import math

import z3

from vf import common, harness
from vf.common import Tally
from vf.pysym import api, ops
from vf.pysym.explore import Return, Raise, Unsup
from vf.pysym.models import LOG, LOWER
from vf.pysym.values import SReal, SInt, SStr, Sym
from vf.replay import enc

PROP = "C18"
STATS = "pyab_experiment.utils.stats"


def real(v):
    return ops.real_term(v)


def run_ci(method, stub_probit=True, tag=""):
    n = SInt(z3.Int("n" + tag))
    p = SReal(z3.Real("p" + tag))
    conf = SReal(z3.Real("conf" + tag))
    z = z3.Real("z" + tag)
    assume = [n.term >= 1, p.term >= 0, p.term <= 1, conf.term > 0, conf.term < 1]

    def setup(it):
        if stub_probit:
            def probit_stub(ctx, interp, args, kwargs):
                a = args[0] if args else kwargs.get("alpha", 0.5)
                ctx.recorded.append(("probit_arg", a))
                ctx.assume(z >= 0)
                return SReal(z)
            it.call_overrides["probit"] = probit_stub
    run = api.run(api.call_module_function(STATS, "confidence_interval", [n, p, conf, method]),
                  opts={"float_mode": "real", "prune": True, "prune_timeout_ms": 5000, "tag": tag},
                  assumptions=assume, setup=setup)
    return run, dict(n=n, p=p, conf=conf, z=z), assume


def returning(run):
    return [p for p in run.paths if isinstance(p.outcome, Return)]


def textbook(method, n, p, z, tag):
    """(lower, upper, extra constraints) of the textbook formulas over the same z."""
    r = z3.Real("ref_root" + tag)
    nn = z3.ToReal(n)
    if method == "agresti-coull":
        n1 = nn + z * z
        p1 = (p * nn + z * z / 2) / n1
        rad = p1 * (1 - p1) / n1
        centre = p1
    else:
        rad = p * (1 - p) / nn
        centre = p
    cons = [r >= 0, r * r == rad]
    return centre - z * r, centre + z * r, cons, rad


def find_roots(conds):
    found = {}

    def rec(t):
        if z3.is_const(t) and t.decl().kind() == z3.Z3_OP_UNINTERPRETED and t.decl().name().startswith("sqrt!"):
            found[t.decl().name()] = t
        for c in t.children():
            rec(c)
    for c in conds:
        rec(c)
    return list(found.values())


def root_defs(conds):
    """[(root constant, radicand term)] from the `And(r >= 0, r*r == X)` facts pysym adds for x ** 0.5"""
    out = []
    for c in conds:
        if z3.is_and(c) and c.num_args() == 2:
            ge, eq = c.arg(0), c.arg(1)
            if z3.is_eq(eq) and z3.is_mul(eq.arg(0)) and eq.arg(0).num_args() == 2 and \
                    eq.arg(0).arg(0).eq(eq.arg(0).arg(1)) and z3.is_const(eq.arg(0).arg(0)) and \
                    eq.arg(0).arg(0).decl().name().startswith("sqrt"):
                out.append((eq.arg(0).arg(0), eq.arg(1), c))
    return out


def width_parts(tally, path, z, timeout_ms, out, what):
    """Shows width = 2*z*r for the path's single root r and returns (z^2 * radicand, conds without the
    root definition), so that width comparisons can be decided root-free on squares."""
    defs = root_defs(path.conds)
    if len(defs) != 1:
        return None
    r_, rad, fact = defs[0]
    lo, hi = real(path.outcome.value[0]), real(path.outcome.value[1])
    r, m = common.check(tally, list(path.conds) + [hi - lo != 2 * z * r_], timeout_ms,
                        label="C18 width = 2*z*root (%s)" % what, keep_sample=False)
    if r != "unsat":
        return None
    rest = [c for c in path.conds if not c.eq(fact)]
    return z * z * rad, rest


def relax_int(conds, ints):
    """Sound over-approximation for the NRA queries: every ToReal(n) of an integer n >= 1 becomes an
    arbitrary real >= 1 (if nothing is found over the reals, nothing exists over the integers)."""
    sub, extra = [], []
    for i, n in enumerate(ints):
        nr = z3.Real("n_real_%d" % i)
        sub.append((z3.ToReal(n), nr))
        extra.append(nr >= 1)
    out = []
    for c in conds:
        c2 = z3.substitute(c, *sub)
        if any(_mentions(c2, n) for n in ints):
            continue   # purely integer facts (n >= 1) are replaced by nr >= 1
        out.append(c2)
    return out + extra, dict((str(n), nr) for (t, nr), n in zip(sub, ints))


def _mentions(t, const):
    if t.eq(const):
        return True
    return any(_mentions(c, const) for c in t.children())


def square_lemma(tally, timeout_ms):
    x, y = z3.Reals("sq_x sq_y")
    r, m = common.check(tally, [x >= 0, y >= 0, x * x <= y * y, x > y], timeout_ms,
                        label="C18 lemma: 0 <= x, y and x^2 <= y^2 => x <= y")
    return r == "unsat"


def ci_witness(m, vars_, why, method):
    nv = m.eval(vars_["n"].term, model_completion=True).as_long()
    pv = harness.model_value(m, vars_["p"], prefer_float=True)
    zv = m.eval(vars_["z"], model_completion=True)
    try:
        if z3.is_algebraic_value(zv):
            zv = zv.approx(20)
        zf = float(zv.numerator_as_long()) / float(zv.denominator_as_long())
    except Exception:
        zf = 1.0
    c = math.sqrt(math.pi / 8)
    t = math.exp(-min(zf, 600.0) / c)
    conf = 1 - 2 * (t / (1 + t))
    conf = min(max(conf, 1e-12), 1 - 1e-12)
    return {"kind": "ci", "n": nv, "p": float(pv), "confidence": conf, "method": method, "why": why,
            "plain": "n=%d p=%r z=%r (confidence=%r)" % (nv, pv, zf, conf)}


def ob_algebra(method, timeout_ms):
    tally = Tally()
    out = base_out("interval algebra (%s)" % method)
    run, v, assume = run_ci(method)
    absorb(out, run)
    n, p, z = v["n"].term, v["p"].term, v["z"]
    for path in run.paths:
        if isinstance(path.outcome, Unsup):
            r, m = common.check(tally, path.conds, timeout_ms, label="C18 radicand < 0 / unsupported path feasible? (%s)" % method,
                                keep_sample=True)
            if r == "sat":
                out["witnesses"].append(ci_witness(m, v, "interval computation leaves the reals: %s" % path.outcome.reason, method))
            elif r == "unknown":
                note_unknown(out, "radicand >= 0")
            continue
        if isinstance(path.outcome, Raise):
            r, m = common.check(tally, path.conds, timeout_ms, label="C18 exception on valid arguments (%s)" % method)
            if r == "sat":
                out["witnesses"].append(ci_witness(m, v, "raises %s on valid arguments" % path.outcome.exc_name, method))
            elif r == "unknown":
                note_unknown(out, "exception path")
            continue
        val = path.outcome.value
        if not (isinstance(val, tuple) and len(val) == 2):
            out["witnesses"].append({"kind": "ci", "n": 10, "p": 0.5, "confidence": 0.95, "method": method,
                                     "why": "does not return a pair", "plain": ""})
            continue
        lo, hi = real(val[0]), real(val[1])
        # module's own z-score: probit called once with (1 - confidence) / 2
        pa = [a for t, a in path.recorded if t == "probit_arg"]
        if len(pa) != 1:
            out["witnesses"].append(ci_witness(None, v, "", method) if False else
                                    {"kind": "ci", "n": 10, "p": 0.5, "confidence": 0.95, "method": method,
                                     "why": "probit called %d times" % len(pa), "plain": ""})
        else:
            r, m = common.check(tally, list(path.conds) + [real(pa[0]) != (1 - v["conf"].term) / 2], timeout_ms,
                                label="C18 z = probit((1-confidence)/2)")
            if r == "sat":
                out["witnesses"].append(ci_witness(m, v, "z-score taken at a different alpha than (1-confidence)/2", method))
            elif r == "unknown":
                note_unknown(out, "probit argument")
        r, m = common.check(tally, list(path.conds) + [lo > hi], timeout_ms, label="C18 lower <= upper (%s)" % method,
                            keep_sample=True)
        if r == "sat":
            out["witnesses"].append(ci_witness(m, v, "lower > upper", method))
        elif r == "unknown":
            note_unknown(out, "lower <= upper")
        rlo, rhi, rcons, rad = textbook(method, n, p, z, "")
        roots = find_roots(path.conds)
        if len(roots) == 1:
            # same root symbol on both sides: (1) the radicands agree, (2) the bounds agree as
            # rational functions of (n, p, z, root)
            rt = roots[0]
            cen = (rlo + rhi) / 2
            qs = [("radicand", [rt * rt != rad]),
                  ("bounds", [z3.Or(lo != cen - z * rt, hi != cen + z * rt)])]
        else:
            qs = [("bounds", rcons + [z3.Or(lo != rlo, hi != rhi)])]
        for qname, extra in qs:
            r, m = common.check(tally, list(path.conds) + extra, timeout_ms,
                                label="C18 equals the textbook %s formula over the same z (%s)" % (method, qname),
                                keep_sample=True)
            if r == "sat":
                out["witnesses"].append(ci_witness(m, v, "differs from the textbook formula (%s)" % qname, method))
                break
            elif r == "unknown":
                note_unknown(out, "textbook equality / " + qname)
        r, m = common.check(tally, list(path.conds) + [n == 10, p == 0.5, z == 2], timeout_ms)
        if r == "sat":
            out["reach"] += 1
    if not returning(run):
        out["status"] = "inconclusive"
        out["note"] = "no returning path"
    out["tally"] = tally
    return out


def ob_narrow(method, timeout_ms):
    """width(n+1) <= width(n) for the same p and z."""
    tally = Tally()
    out = base_out("narrows with n (%s)" % method)
    r1, v1, _ = run_ci(method, tag="")
    r2, v2, _ = run_ci(method, tag="_b")
    absorb(out, r1)
    absorb(out, r2)
    for a in returning(r1):
        for b in returning(r2):
            wa = real(a.outcome.value[1]) - real(a.outcome.value[0])
            wb = real(b.outcome.value[1]) - real(b.outcome.value[0])
            link = [v2["n"].term == v1["n"].term + 1, v2["p"].term == v1["p"].term, v2["z"] == v1["z"],
                    v2["conf"].term == v1["conf"].term]
            sa = width_parts(tally, a, v1["z"], timeout_ms, out, method)
            sb = width_parts(tally, b, v2["z"], timeout_ms, out, method)
            if sa and sb and square_lemma(tally, timeout_ms):
                # root-free: (width/2)^2 = z^2 * radicand on both sides
                cons, nmap = relax_int(sa[1] + sb[1] + [v2["p"].term == v1["p"].term, v2["z"] == v1["z"], sb[0] > sa[0]],
                                       [v1["n"].term, v2["n"].term])
                cons.append(nmap[str(v2["n"].term)] == nmap[str(v1["n"].term)] + 1)
                r, m = common.check_portfolio(tally, cons, label="C18 width(n+1)^2 <= width(n)^2, root-free, n real (%s)"
                                              % method, keep_sample=True)
                if r == "sat":
                    r, m = common.check(tally, list(a.conds) + list(b.conds) + link + [wb > wa], timeout_ms,
                                        label="C18 width(n+1) <= width(n) (%s)" % method)
            else:
                r, m = common.check(tally, list(a.conds) + list(b.conds) + link + [wb > wa], timeout_ms,
                                    label="C18 width(n+1) <= width(n) (%s)" % method, keep_sample=True)
            if r == "sat":
                w = ci_witness(m, v1, "interval gets wider from n to n+1", method)
                w["check"] = "narrow"
                out["witnesses"].append(w)
            elif r == "unknown":
                note_unknown(out, "narrowing")
            r, m = common.check(tally, list(a.conds) + list(b.conds) + link + [v1["n"].term == 7, v1["z"] == 2,
                                                                              v1["p"].term == z3.RealVal("1/4")], timeout_ms)
            if r == "sat":
                out["reach"] += 1
            else:
                out["status"] = "inconclusive"
                out["note"] = "vacuity twin failed (narrow)"
    out["tally"] = tally
    return out


def ob_widen(method, timeout_ms):
    """width non-decreasing in z (then in confidence by the probit lemma)."""
    tally = Tally()
    out = base_out("widens with z (%s)" % method)
    r1, v1, _ = run_ci(method, tag="")
    r2, v2, _ = run_ci(method, tag="_b")
    absorb(out, r1)
    absorb(out, r2)
    for a in returning(r1):
        for b in returning(r2):
            wa = real(a.outcome.value[1]) - real(a.outcome.value[0])
            wb = real(b.outcome.value[1]) - real(b.outcome.value[0])
            link = [v2["n"].term == v1["n"].term, v2["p"].term == v1["p"].term, v2["z"] >= v1["z"]]
            sa = width_parts(tally, a, v1["z"], timeout_ms, out, method)
            sb = width_parts(tally, b, v2["z"], timeout_ms, out, method)
            if sa and sb and square_lemma(tally, timeout_ms):
                cons, nmap = relax_int(sa[1] + sb[1] + [v2["p"].term == v1["p"].term, v2["z"] >= v1["z"], sb[0] < sa[0]],
                                       [v1["n"].term, v2["n"].term])
                cons.append(nmap[str(v2["n"].term)] == nmap[str(v1["n"].term)])
                r, m = common.check_portfolio(tally, cons, label="C18 z1 <= z2 => width(z1)^2 <= width(z2)^2, root-free, "
                                              "n real (%s)" % method, keep_sample=True)
                if r == "sat":
                    r, m = common.check(tally, list(a.conds) + list(b.conds) + link + [wb < wa], timeout_ms,
                                        label="C18 z1 <= z2 => width(z1) <= width(z2) (%s)" % method)
            else:
                r, m = common.check(tally, list(a.conds) + list(b.conds) + link + [wb < wa], timeout_ms,
                                    label="C18 z1 <= z2 => width(z1) <= width(z2) (%s)" % method, keep_sample=True)
            if r == "sat":
                w = ci_witness(m, v1, "interval gets narrower when the z-score grows", method)
                w["check"] = "widen"
                out["witnesses"].append(w)
            elif r == "unknown":
                note_unknown(out, "widening")
            r, m = common.check(tally, list(a.conds) + list(b.conds) + link + [v1["n"].term == 7, v1["z"] == 2, v2["z"] == 3,
                                                                              v1["p"].term == z3.RealVal("1/4")], timeout_ms)
            if r == "sat":
                out["reach"] += 1
            else:
                out["status"] = "inconclusive"
                out["note"] = "vacuity twin failed (widen)"
    out["tally"] = tally
    return out


def log_axioms(points):
    """Hand-instantiated axioms of log on the given positive terms (and 1):
    strictly increasing, log 1 = 0, log(1/x) = -log x (for pairs that are reciprocal)."""
    L = LOG()
    one = z3.RealVal(1)
    pts = list(points) + [one]
    ax = [L(one) == 0]
    for i, a in enumerate(pts):
        for b in pts[i + 1:]:
            ax.append(z3.Implies(z3.And(a > 0, b > 0, a < b), L(a) < L(b)))
            ax.append(z3.Implies(z3.And(a > 0, b > 0, b < a), L(b) < L(a)))
            ax.append(z3.Implies(z3.And(a > 0, b > 0, a == b), L(a) == L(b)))
            ax.append(z3.Implies(z3.And(a > 0, b > 0, a * b == 1), L(a) == -L(b)))
    return ax


def ob_probit(timeout_ms):
    tally = Tally()
    out = base_out("probit lemmas")

    def run(tag):
        a = SReal(z3.Real("alpha" + tag))
        r = api.run(api.call_module_function(STATS, "probit", [a]),
                    opts={"float_mode": "real", "prune": True}, assumptions=[a.term > 0, a.term < 1])
        return r, a
    r1, a1 = run("")
    r2, a2 = run("_b")
    absorb(out, r1)
    for p in r1.paths:
        if isinstance(p.outcome, Return):
            continue
        r, m = common.check(tally, p.conds, timeout_ms, label="C18 probit raises / unsupported for 0 < alpha < 1")
        if r == "sat":
            av = harness.model_value(m, a1, prefer_float=True)
            out["witnesses"].append({"kind": "probit", "alpha": float(av), "why": "probit(%r) ends in %r" % (av, p.outcome), "plain": ""})
        elif r == "unknown":
            note_unknown(out, "probit exception path")

    def log_args(paths):
        args = []
        for p in paths:
            for c in p.conds:
                pass
        return args
    L = LOG()
    t1 = a1.term / (1 - a1.term)
    t2 = a2.term / (1 - a2.term)
    ax = log_axioms([t1, t2])
    for pa in returning(r1):
        za = real(pa.outcome.value)
        # sign
        r, m = common.check(tally, list(pa.conds) + ax + [za < 0], timeout_ms, label="C18 probit >= 0")
        if r == "sat":
            av = harness.model_value(m, a1, prefer_float=True)
            out["witnesses"].append({"kind": "probit", "alpha": float(av), "why": "negative z-score", "plain": ""})
        elif r == "unknown":
            note_unknown(out, "probit sign")
        # never below the logit bound sqrt(pi/8)*|log(a/(1-a))| (root-free: both sides are >= 0, compare squares).  That
        # bound is >= the normal quantile for every a (a fact about the reference formula, cited, not proved here): a z-score
        # that can dip below it is handed to a numeric search for a point where it is below the true quantile.
        lg = L(t1)
        # (the code's constant is the ROUNDED square root of pi/8: allow a relative 1e-12)
        c2 = z3.RealVal(str(fractions.Fraction(math.pi) / 8 * (1 - fractions.Fraction(1, 10 ** 12))))
        r, m = common.check(tally, list(pa.conds) + ax + [za >= 0, za * za < c2 * lg * lg], timeout_ms,
                            label="C18 probit(a) >= sqrt(pi/8)*|log(a/(1-a))|", keep_sample=True)
        if r == "sat":
            av = harness.model_value(m, a1, prefer_float=True)
            out["witnesses"].append({"kind": "probit_quantile", "alpha": float(av),
                                     "why": "the z-score can be smaller than the logit bound sqrt(pi/8)*|log(a/(1-a))|", "plain": ""})
        elif r == "unknown":
            note_unknown(out, "probit logit bound")
        for pb in returning(r2):
            zb = real(pb.outcome.value)
            # symmetry: alpha_b = 1 - alpha_a  =>  equal
            r, m = common.check(tally, list(pa.conds) + list(pb.conds) + ax + [a2.term == 1 - a1.term, za != zb],
                                timeout_ms, label="C18 probit(a) = probit(1-a)", keep_sample=True)
            if r == "sat":
                av = harness.model_value(m, a1, prefer_float=True)
                out["witnesses"].append({"kind": "probit", "alpha": float(av), "why": "probit(a) != probit(1-a)", "plain": ""})
            elif r == "unknown":
                note_unknown(out, "probit symmetry")
            else:
                out["reach"] += 1
            # monotone towards the tails on (0, 1/2]: a_b <= a_a <= 1/2  =>  z_b >= z_a
            r, m = common.check(tally, list(pa.conds) + list(pb.conds) + ax +
                                [a2.term <= a1.term, a1.term <= z3.RealVal("1/2"), zb < za],
                                timeout_ms, label="C18 probit non-increasing on (0,1/2] (so z grows with confidence)",
                                keep_sample=True)
            if r == "sat":
                av = harness.model_value(m, a1, prefer_float=True)
                bv = harness.model_value(m, a2, prefer_float=True)
                out["witnesses"].append({"kind": "probit_mono", "alpha": float(av), "alpha_b": float(bv),
                                         "why": "z-score decreases towards the tail", "plain": ""})
            elif r == "unknown":
                note_unknown(out, "probit monotone")
    # the uninterpreted log really is what the code calls: concrete anchor
    from pyab_experiment.utils.stats import probit as real_probit
    for a in (0.5, 0.025, 0.975, 0.2, 1e-9):
        want = math.sqrt(math.pi / 8) * abs(math.log(a / (1 - a)))
        got = real_probit(a)
        if not (abs(got - want) <= 1e-12 * max(1.0, abs(want))):
            out["witnesses"].append({"kind": "probit", "alpha": a, "why": "probit(%r) = %r, formula gives %r" % (a, got, want), "plain": ""})
        out["validated"] = out.get("validated", 0) + 1
    out["tally"] = tally
    return out


def known_method_regexes():
    """(documented, generous): the documented names case-insensitively, and the widest set a benign normalisation
    could accept (surrounding whitespace, '_' for '-'); anything outside `generous` is an unknown method name."""
    from vf.pysym.values import SNorm, norm_eq_regex, strip_chars
    x = z3.String("method")
    doc = z3.Union(norm_eq_regex(SNorm(x, True, False), "agresti-coull"), norm_eq_regex(SNorm(x, True, False), "wald"))
    gen = z3.Union(norm_eq_regex(SNorm(x, True, True), "agresti-coull"), norm_eq_regex(SNorm(x, True, True), "agresti_coull"),
                   norm_eq_regex(SNorm(x, True, True), "wald"))
    return doc, gen


def ob_float(method, timeout_ms):
    """BUG HUNTING in binary64 (no claim on unsat/unknown): the interval computation executed bit-precisely with a symbolic
    z >= 0, integral n in [1, 1e9] and p in [0, 1].  A path on which a square root is taken of a NEGATIVE float (CPython
    returns a complex number there), or on which lower > upper, is asked for a model with a short budget; a model is
    turned into (n, p, confidence) and replayed on the real function."""
    from vf.pysym.values import SFP, FP64, fp_const, RNE
    tally = Tally()
    out = base_out("binary64 hunt (%s)" % method)
    n = SFP(z3.FP("n_fp", FP64))
    p = SFP(z3.FP("p_fp", FP64))
    conf = SFP(z3.FP("conf_fp", FP64))
    z = z3.FP("z_fp", FP64)
    assume = [z3.fpGEQ(n.term, fp_const(1.0)), z3.fpLEQ(n.term, fp_const(1e9)),
              n.term == z3.fpRoundToIntegral(z3.RNE(), n.term),
              z3.fpGEQ(p.term, fp_const(0.0)), z3.fpLEQ(p.term, fp_const(1.0)),
              z3.fpGT(conf.term, fp_const(0.0)), z3.fpLT(conf.term, fp_const(1.0)),
              z3.fpGEQ(z, fp_const(0.0)), z3.fpLEQ(z, fp_const(40.0))]

    def setup(it):
        def probit_stub(ctx, interp, args, kwargs):
            return SFP(z)
        it.call_overrides["probit"] = probit_stub
    try:
        run = api.run(api.call_module_function(STATS, "confidence_interval", [n, p, conf, method]),
                      opts={"float_mode": "fp", "prune": False}, assumptions=assume, setup=setup)
    except Exception as e:
        out["tally"] = tally
        out["stubs"] = ["binary64 hunt not applicable: %s" % str(e)[:80]]
        return out
    absorb(out, run)
    thorough = timeout_ms > 200000
    budget = 120000 if thorough else 70000

    def fpval(m, t):
        v = m.eval(t, model_completion=True)
        return float(eval(str(z3.simplify(z3.fpToReal(v))).replace("?", "")) ) if False else _fp_to_float(v)
    for path in run.paths:
        if not isinstance(path.outcome, Return):
            continue
        cplx = any(t == "complex-result" for t, _ in path.recorded)
        extra = []
        why = "the interval is complex: a square root of a negative binary64 radicand"
        if not cplx and not thorough:
            continue            # quick tier: only the negative-radicand paths are hunted
        if not cplx:
            val = path.outcome.value
            if not (isinstance(val, tuple) and len(val) == 2 and isinstance(val[0], SFP) and isinstance(val[1], SFP)):
                continue
            extra = [z3.fpGT(val[0].term, val[1].term)]
            why = "lower > upper in binary64"
        # the general query is out of reach of bit-blasting within the budget (three symbolic multiplications): the hunt is
        # steered to the corners where cancellation lives - p exactly 0 or 1, then the general case
        r, m = "unknown", None
        import time as _time
        tiny = z3.fpLEQ(z, fp_const(2.0 ** -30))
        corners = [[p.term == fp_const(1.0), tiny, n.term == fp_const(1.0)], [p.term == fp_const(0.0), tiny, n.term == fp_const(1.0)]]
        if thorough:
            corners += [[p.term == fp_const(1.0), tiny], [p.term == fp_const(0.0), tiny], [p.term == fp_const(1.0), n.term == fp_const(1e9)]]
        for corner in corners:
            t0_ = _time.time()
            r, m = common.check(tally, list(path.conds) + extra + corner, budget if corner else budget // 2, _retry=False,
                                keep_sample=True, label="C18 binary64 hunt (%s): %s" % (method, why))
            out.setdefault("timing", []).append((cplx, len(corner), r, round(_time.time() - t0_, 1)))
            if r == "sat":
                break
        if r == "sat":
            nv, pv, zv = _fp_to_float(m.eval(n.term, model_completion=True)), _fp_to_float(m.eval(p.term, model_completion=True)), \
                _fp_to_float(m.eval(z, model_completion=True))
            c = math.sqrt(math.pi / 8)
            t = math.exp(-min(zv, 600.0) / c)
            cv = 1 - 2 * (t / (1 + t))
            cv = min(max(cv, 1e-300), 1 - 1e-16)
            out["witnesses"].append({"kind": "ci", "n": int(nv), "p": pv, "confidence": cv, "method": method, "why": why,
                                     "search_confidences": [1e-15, 1e-12, 1e-9, 1e-6, 1e-3, 0.5, 0.95, 1 - 1e-6, 1 - 1e-12],
                                     "plain": "n=%d p=%r z=%r (confidence=%r)" % (int(nv), pv, zv, cv)})
    out["tally"] = tally
    return out


def _fp_to_float(v):
    import struct
    try:
        bits = (int(str(v.sign_as_bv().as_long())) << 63) | (v.exponent_as_long(True) << 52) | v.significand_as_long()
        return struct.unpack(">d", struct.pack(">Q", bits))[0]
    except Exception:
        try:
            return float(v.as_string())
        except Exception:
            return 0.0


def ob_method(timeout_ms):
    tally = Tally()
    out = base_out("method dispatch")
    method = SStr(z3.String("method"))
    run, v, assume = run_ci(method)
    absorb(out, run)
    doc, gen = known_method_regexes()
    for p in run.paths:
        if isinstance(p.outcome, Unsup):
            r, m = common.check(tally, p.conds, timeout_ms)
            if r != "unsat" and "0.5" not in p.outcome.reason:
                out["status"] = "inconclusive"
                out["note"] = "method dispatch leaves the pysym subset: " + p.outcome.reason
            continue
        refused = isinstance(p.outcome, Raise) and p.outcome.exc_name == "NotImplementedError"
        if refused:
            q = list(p.conds) + [z3.InRe(method.term, doc)]
            lab = "C18 a documented method name (any case) is refused"
        elif isinstance(p.outcome, Return):
            q = list(p.conds) + [z3.Not(z3.InRe(method.term, gen))]
            lab = "C18 an unknown method name is accepted"
        else:
            q = list(p.conds)
            lab = "C18 method dispatch raises %s" % p.outcome.exc_name
        r, m = common.check(tally, q, timeout_ms, label=lab, keep_sample=True)
        if r == "sat":
            mv = harness.model_value(m, method)
            out["witnesses"].append({"kind": "ci_method", "method": mv, "expect_ok": bool(refused),
                                     "why": "%s: method=%r -> %r" % (lab, mv, p.outcome), "plain": ""})
        elif r == "unknown":
            note_unknown(out, "method dispatch")
        else:
            out["reach"] += 1
    # anchor: the documented spellings work on the real function
    from pyab_experiment.utils.stats import confidence_interval
    for mname in ("Agresti-Coull", "WALD", "wald", "agresti-coull"):
        try:
            confidence_interval(10, 0.5, 0.95, mname)
        except Exception as e:
            out["witnesses"].append({"kind": "ci_method", "method": mname, "expect_ok": True,
                                     "why": "documented method %r refused: %s" % (mname, type(e).__name__), "plain": ""})
    out["tally"] = tally
    return out


def base_out(name):
    return {"status": "ok", "witnesses": [], "paths": 0, "reach": 0, "encoded": {}, "stubs": [], "name": name}


def absorb(out, run):
    out["paths"] += len(run.paths)
    out["encoded"].update(run.encoded_digest())
    out["stubs"] = sorted(set(out["stubs"]) | set(run.notes))


def note_unknown(out, what):
    out["status"] = "inconclusive"
    out["note"] = "solver unknown on %s (%s)" % (what, out["name"])


def _dispatch(a):
    common.setup_path()
    kind = a[0]
    if kind == "algebra":
        return ob_algebra(a[1], a[2])
    if kind == "narrow":
        return ob_narrow(a[1], a[2])
    if kind == "widen":
        return ob_widen(a[1], a[2])
    if kind == "probit":
        return ob_probit(a[1])
    if kind == "method":
        return ob_method(a[1])
    if kind == "float":
        return ob_float(a[1], a[2])
    raise ValueError(kind)


def main(tier):
    common.setup_path()
    rep = common.Reporter(PROP)
    timeout_ms = 120000 if tier == "quick" else 900000
    items = [("probit", timeout_ms), ("method", timeout_ms)]
    for mth in ("agresti-coull", "wald"):
        items += [("algebra", mth, timeout_ms), ("narrow", mth, timeout_ms), ("widen", mth, timeout_ms), ("float", mth, timeout_ms)]
    results = common.pmap(_dispatch, items, chunksize=1)
    total = Tally()
    encoded, stubs = {}, set()
    n_paths = reach = 0
    for r in results:
        total.merge(r["tally"])
        n_paths += r["paths"]
        reach += r["reach"]
        encoded.update(r["encoded"])
        stubs.update(r["stubs"])
        if r["status"] == "inconclusive":
            rep.inconc("%s: %s" % (r["name"], r.get("note", "?")))
        for w in r["witnesses"]:
            if len(rep.violations) >= 5:
                break
            payload = dict(w)
            payload["property"] = PROP
            plain = payload.pop("plain", "")
            o = common.run_replay_subprocess(payload)
            payload["replay_result"] = o
            summary = "%s; %s | %s" % (w["why"], plain, o.get("observed", ""))
            if o.get("reproduced"):
                rep.violation(payload, summary)
            else:
                rep.inconc("witness did not reproduce: " + summary)
    coverage = {
        "obligations": total.unsat + total.sat + total.unknown,
        "discharged": total.unsat,
        "programs": len(items),
        "disagreements_checked": total.unsat + total.sat,
        "samples": total.samples[:5] or [{"note": "none"}],
        "paths": n_paths,
        "reachability_twins_passed": reach,
        "queries": total.as_dict(),
        "functions_encoded": encoded,
        "stubs_used": sorted(stubs) + ["probit replaced by an arbitrary z >= 0 inside confidence_interval (lemma: probit >= 0)",
                                       "log axioms (strictly increasing, log 1 = 0, log(1/x) = -log x) instantiated on the terms used"],
        "bounds": "all integers n >= 1, all reals 0 <= p <= 1, 0 < confidence < 1 in exact real arithmetic; 'z >= true normal "
                  "quantile' only through z >= sqrt(pi/8)*|log(a/(1-a))| (solver) and the cited fact that this bound dominates the "
                  "quantile; binary64: BUG HUNTING ONLY - the interval computation is also executed bit-precisely and paths taking "
                  "the square root of a negative float are asked for a model at the corners p in {0, 1}, n = 1, tiny z (thorough: "
                  "more corners and lower > upper) under a time budget; unsat or unknown there is NOT a claim",
    }
    common.write_evidence(PROP, "translation_validation", coverage,
                          ["floats are treated as reals", "math.log is strictly increasing with log 1 = 0 and log(1/x) = -log x",
                           "str.lower is a function (uninterpreted) anchored on the documented names"],
                          rep.wall, len(rep.violations), tier)
    print("C18: %d obligation groups, %d paths, queries %s, wall %.1fs" % (len(items), n_paths, total.as_dict(), rep.wall))
    return rep.exit_code()
