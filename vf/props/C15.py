"""C15 -- evaluation is total over field values.

The generated function is executed symbolically together with the real
deterministic_choice / deterministic_proba / bisect (MD5 uninterpreted, floats bit-precise):
every path that ends in an exception is asked for feasibility; any model is a witness.
Plus: 0 <= position < 1 for every string; values that print identically share a key.
"""
from __future__ import annotations

import itertools

import z3

from vf import common, harness, keyrun
from vf.common import Tally
from vf.pysym import ops
from vf.pysym.explore import Return, Raise, Unsup
from vf.pysym.values import SStr, SInt, SFP, SReal, Sym, FP64
from vf.ref import dsl, scheme
from vf.ref.dsl import Program, If, Cmp, Id, Lit, Tup
from vf.families.programs import R
from vf.replay import enc
from vf.props import C12

PROP = "C15"

SALTS = [None, "", "exp_v1", "sälz-é́", "中文🙂", "a'b", "x\\y"]
SORTS = ["str", "int", "fp", "true", "false", "none"]


def programs():
    out = []
    bodies = [("plain2", R(2)), ("plain5", R(5)),
              ("cond", If(((Cmp(Id("age"), ">", Lit(18)), R(2)),), R(3)))]
    for salt in SALTS:
        for names in (("uid",), ("uid", "dev")):
            for bname, body in bodies:
                if bname != "plain2" and salt not in (None, "sälz-é́"):
                    continue
                try:
                    p = dsl.relabel(Program(name="tot", body=body, salt=salt, splitters=names))
                    dsl.program_text(p)
                except ValueError:
                    continue
                out.append((bname, p))
    return out


def spl_value(name, sort):
    if sort == "fp":
        return SFP(z3.FP("spl_" + name, FP64))
    return keyrun.splitter_value(name, sort)


def check_item(item):
    bname, prog, typing, timeout_ms = item
    common.setup_path()
    tally = Tally()
    out = {"status": "ok", "witnesses": [], "paths": 0, "reach": 0, "encoded": {}, "stubs": [], "text": None}
    text = dsl.program_text(prog)
    out["text"] = text
    gen = harness.real_generate(text)
    if gen.error or gen.text is None:
        out["status"] = "nocompile"
        out["note"] = str(gen.error)
        out["tally"] = tally
        return out
    env, spl, kwargs = keyrun.make_inputs(prog, {})
    for n in prog.splitters:
        kwargs[n] = spl_value(n, typing[n])
    kwargs["unrelated_s"] = SStr(z3.String("unrelated_s"))
    kwargs["unrelated_x"] = SFP(z3.FP("unrelated_x", FP64))
    kwargs["unrelated_n"] = None
    assume = []
    for v in kwargs.values():
        if isinstance(v, SStr):
            assume.append(C12.scalar_strings(v.term))
    run = harness.run_generated(gen.text, gen.fn_name, kwargs, stub_choice=False,
                                opts={"float_mode": "fp", "prune": False, "int_str_limit": True}, assumptions=assume)
    out["paths"] = len(run.paths)
    out["encoded"] = run.encoded_digest()
    out["stubs"] = run.notes
    got_return = False
    for p in run.paths:
        if isinstance(p.outcome, Return):
            if not got_return:
                r, m = common.check(tally, harness.abstract_digests(p.conds[len(assume):]), timeout_ms,
                                    label="C15 reachability of a returning path")
                if r == "sat":
                    got_return = True
                    out["reach"] += 1
            continue
        if isinstance(p.outcome, Raise) and p.outcome.exc_name == "ExperimentConditionalFailedError":
            continue
        r, m = common.check(tally, p.conds, timeout_ms, label="C15 exception path feasible?", keep_sample=True)
        if r == "unsat":
            continue
        if r == "unknown":
            out["status"] = "inconclusive"
            out["note"] = "unknown on exception-path feasibility"
            continue
        if isinstance(p.outcome, Unsup):
            out["status"] = "inconclusive"
            out["note"] = "unsupported on feasible path: " + p.outcome.reason
            continue
        fields = {k: harness.model_value(m, v) for k, v in kwargs.items()}
        out["witnesses"].append({"kind": "total", "text": text, "fields": {k: enc(v) for k, v in fields.items()},
                                 "allowed_errors": ["ExperimentConditionalFailedError"],
                                 "why": "evaluation raises %s" % p.outcome.exc_name, "plain": repr(fields)})
    if not got_return and not out["witnesses"]:
        out["status"] = "inconclusive"
        out["note"] = "vacuity: no returning path is feasible"
    out["tally"] = tally
    return out


def lemma_same_print(timeout_ms):
    """Units whose splitter values print identically share a key (precise str(int))."""
    common.setup_path()
    tally = Tally()
    out = {"status": "ok", "witnesses": [], "paths": 0, "reach": 0, "encoded": {}, "stubs": [], "text": None}
    prog = dsl.relabel(Program(name="sp", body=R(2), salt="k", splitters=("uid",)))
    text = dsl.program_text(prog)
    out["text"] = text
    A = keyrun.keyed_run(prog, {"uid": "int"})
    B = keyrun.keyed_run(prog, {"uid": "str"})
    if A.run is None or B.run is None:
        out["status"] = "nocompile"
        out["tally"] = tally
        return out
    out["paths"] = len(A.run.paths) + len(B.run.paths)
    i, s = A.spl["uid"], B.spl["uid"]
    for pa in A.run.paths:
        for pb in B.run.paths:
            bad = [p_ for p_ in (pa, pb) if not (isinstance(p_.outcome, Return) and isinstance(p_.outcome.value, harness.Choice))]
            if bad:
                out["status"] = "inconclusive"
                out["note"] = "same-print lemma: a path does not end in the choice call (%s)" % (
                    getattr(bad[0].outcome, "reason", None) or type(bad[0].outcome).__name__)
                continue
            ka, kb = pa.outcome.value.key, pb.outcome.value.key
            q = list(pa.conds) + list(pb.conds) + [s.term == ops.int_to_str_term(i.term),
                                                   ops.str_term(ka) != ops.str_term(kb)]
            r, m = common.check(tally, q, timeout_ms, label="C15 str-equal values share a key", keep_sample=True)
            if r == "unknown":
                out["status"] = "inconclusive"
                out["note"] = "unknown on same-print lemma"
            elif r == "sat":
                iv = harness.model_value(m, i)
                out["witnesses"].append({"kind": "pair_equal", "a": {"text": text, "fields": {"uid": enc(iv)}},
                                         "b": {"text": text, "fields": {"uid": enc(str(iv))}},
                                         "why": "uid=%r and uid=%r hash different keys" % (iv, str(iv)),
                                         "plain": ""})
            # twin: the hypothesis is satisfiable
            r, m = common.check(tally, list(pa.conds) + list(pb.conds) + [s.term == ops.int_to_str_term(i.term)],
                                timeout_ms)
            if r == "sat":
                out["reach"] += 1
    out["tally"] = tally
    return out


def lemma_cached_keys(item):
    """A cache keyed on ==/hash of the field values (functools.lru_cache and the like) between the caller and the
    hash conflates values that are equal but print differently; then 1.0 and "1.0" stop sharing a bucket once 1 was seen."""
    from vf.props import C01
    r = C01.check_evaluator(item)
    ws = []
    for w in r["witnesses"]:
        if w["kind"] == "call_history":
            w = dict(w)
            w["kind"] = "same_print_history"
            w["splitters"] = list(item[1].splitters)
            w["why"] = "values that print identically no longer share a bucket: " + w["why"]
            ws.append(w)
    r["witnesses"] = ws
    if r["status"] == "inconclusive" and "cache wrapper" not in str(r.get("note")):
        r["status"] = "ok"     # other notes of the evaluator-level run belong to C01
    return r


def _dispatch(a):
    if a[0] == "cached":
        return lemma_cached_keys(a[1:])
    if a[0] == "same_print":
        return lemma_same_print(a[1])
    if a[0] == "proba":
        return C12.lemma_proba(a[1])
    return check_item(a)


def known_class(w, known):
    """the listed finding this witness belongs to, if any: identified by WHAT fails (a ValueError from str() of an int
    splitter value beyond CPython's decimal conversion limit), so any other failure is still reported"""
    from vf.replay import dec
    from vf.pysym.ops import INT_STR_LIMIT as lim
    if not lim or "raises ValueError" not in w.get("why", ""):
        return None
    fields = {k: dec(v) for k, v in w.get("fields", {}).items()}
    big = [k for k, v in fields.items() if isinstance(v, int) and not isinstance(v, bool) and abs(v) >= 10 ** lim]
    if not big:
        return None
    for f in known:
        if f.get("class") == "int-str-limit":
            return f
    return None


def main(tier):
    common.setup_path()
    rep = common.Reporter(PROP)
    timeout_ms = 60000 if tier == "quick" else 600000
    items = [("same_print", timeout_ms), ("proba", timeout_ms)]
    n_fixed = 2
    for bname, prog in programs()[:3]:
        items.append(("cached", bname, prog, timeout_ms))
        n_fixed += 1
    import random
    rng = random.Random(common.seed())
    for bname, prog in programs():
        combos = list(itertools.product(SORTS, repeat=len(prog.splitters)))
        if tier != "thorough" and len(combos) > 6:
            base = [c for c in combos if len(set(c)) == 1]
            rest = [c for c in combos if len(set(c)) > 1]
            rng.shuffle(rest)
            combos = base + rest[:3]
        for c in combos:
            items.append((bname, prog, dict(zip(prog.splitters, c)), timeout_ms))
    results = common.pmap(_dispatch, items, chunksize=2)
    known = common.findings_for(PROP)
    known_seen = {}
    total = Tally()
    texts, encoded, stubs = set(), {}, set()
    n_paths = reach = 0
    for r in results:
        total.merge(r["tally"])
        n_paths += r["paths"]
        reach += r["reach"]
        encoded.update(r.get("encoded") or {})
        stubs.update(r.get("stubs") or [])
        if r.get("text"):
            texts.add(r["text"])
        if r["status"] == "inconclusive":
            rep.inconc(r.get("note", "?"))
        elif r["status"] == "nocompile":
            rep.inconc("family member does not compile: %s" % r.get("note"))
        for w in r["witnesses"]:
            if len(rep.violations) >= 5:
                break
            payload = dict(w)
            payload["property"] = PROP
            plain = payload.pop("plain", "")
            if len(plain) > 300:
                plain = plain[:140] + " ... " + plain[-100:]
            kf = known_class(w, known)
            if kf is not None and kf["class"] in known_seen:
                known_seen[kf["class"]] += 1
                continue
            o = common.run_replay_subprocess(payload)
            payload["replay_result"] = o
            summary = "%s; %s | %s" % (w["why"], plain, o.get("observed", ""))
            if o.get("reproduced") and kf is not None and "ValueError" in o.get("observed", ""):
                known_seen[kf["class"]] = 1
                rep.known_finding(kf["what"])
            elif o.get("reproduced"):
                rep.violation(payload, summary)
            else:
                rep.inconc("witness did not reproduce: " + summary)
    coverage = {
        "programs": len(texts),
        "disagreements_checked": total.unsat + total.sat,
        "samples": total.samples[:4] or [{"note": "none"}],
        "program_typings_checked": len(items) - n_fixed,
        "paths": n_paths,
        "reachability_twins_passed": reach,
        "queries": total.as_dict(),
        "functions_encoded": encoded,
        "stubs_used": sorted(stubs),
        "bounds": "splitter values: every str over Unicode scalar values up to U+2FFFF (any length, incl. NUL and "
                  "quotes), every int (str(int) with CPython's decimal conversion limit: ints beyond it raise, see "
                  "known_findings.json), every binary64 incl. NaN/inf (str(float) uninterpreted), True/False/None; salts: %d "
                  "concrete salts incl. non-ASCII; lone surrogates outside the claim" % len(SALTS),
    }
    common.write_evidence(PROP, "translation_validation", coverage,
                          ["hashlib.md5 total on bytes", "str.encode('utf-8') total on Unicode scalar values",
                           "CPython str() of float/bool/None never raises; str(int) raises ValueError exactly beyond sys.get_int_max_str_digits() digits"],
                          rep.wall, len(rep.violations), tier)
    print("C15: %d programs, %d items, %d paths, queries %s, wall %.1fs" % (
        len(texts), len(items), n_paths, total.as_dict(), rep.wall))
    return rep.exit_code()
