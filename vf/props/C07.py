"""C07 -- every grammatical experiment compiles and evaluates.

Lexical: LX-ACCEPT(c) for every reference token class, over ALL lexemes and right contexts
  (in particular every identifier: keyword-prefixed, underscore, upper-case, single letter),
  token values (pysym on the token functions).
Syntactic: L(G_ref) subset of L(G_impl) for token sequences up to K (CYK circuits, SAT), solver-
  generated sentences pushed through the real parse_source / ExperimentEvaluator.
Code generation + evaluation: per program of an extended family (identifier pool incl.
  keyword-prefixed and reserved names, shared splitter/condition fields, identifiers and tuples
  inside tuples, deep nesting, long chains, 64 groups): the real pipeline must compile it and the
  symbolic execution of the generated function must end, for all type-compatible field values, in a
  group or in the unroutable-condition error only.
"""
from __future__ import annotations

import contextlib
import io
import keyword
import random

import z3

from vf import common, harness, keyrun
from vf.common import Tally
from vf.cfgsym import cyk
from vf.props import lexcommon
from vf.pysym.explore import Return, Raise, Unsup
from vf.ref import dsl, grammar as rg
from vf.ref.dsl import Program, If, Ret, Group, Lit, Id, Tup, Cmp, And, Or, Not, relabel
from vf.families.programs import R
from vf.replay import enc

PROP = "C07"

POOL_PLAIN = ["order_id", "index", "not_active", "android", "iffy", "elsewhere", "returned", "defn", "salty",
              "weighted_avg", "inx", "ore", "andy", "note", "splitters_2", "elseif_x", "notin", "_", "_x", "X", "AbC",
              "a", "a1", "__dunder__", "ifelse", "in_", "returns", "origin", "india", "notify", "elsewise", "define",
              # names the generated code uses as keyword-argument names or that look special, but which are legitimate
              "population", "weights", "input_id", "cum_weights", "self", "id", "key", "fn", "exp", "e", "cls", "args",
              "salt_", "splitter", "weight", "Weighted", "IF", "Def", "x" * 64]
RESERVED = sorted(set(keyword.kwlist) - {"in", "not", "def", "if", "else", "return", "and", "or"})
HELPERS = ["partial", "deterministic_choice", "ExperimentConditionalFailedError", "choose_experiment_variant", "kwargs",
           "str", "map"]


ROLES = {}


def resolved_at_run_time(name):
    """is `name` something the generated code RESOLVES when it runs (a function it calls or defines, an exception it raises,
    an imported name, its **kwargs), as opposed to a local it assigns?  A field carrying such a name shadows it: the class of
    the recorded finding 'helper-name', whatever the helper happens to be called in this version of the generator."""
    r = ROLES.get(name, set())
    return bool(r & {"called", "raised", "defined", "imported", "vararg"}) and "stored" not in r


def generated_vocabulary():
    """Every identifier the generated Python text itself uses (function and parameter names, locals, imported names,
    keyword-argument names, attribute names, builtins it calls), harvested from the text the real generator emits for two
    sample programs in both layouts.  A field or an experiment carrying one of these names is where generated code
    captures or shadows a name, so they all join the identifier pool - the pool follows the generator instead of a list
    written down once."""
    import ast as _ast
    from pyab_experiment.utils.wraper_functions import parse_source
    from pyab_experiment.codegen.python.python_generator import PythonCodeGen
    samples = ['def zq_exp { salt: "s" splitters: zq_a, zq_b if zq_c == 1 and zq_a in (zq_d, 2) { return "x" weighted 1, "y" weighted 2 } '
               'else if zq_c > 2 { return "z" weighted 1 } else { return 0 weighted 1 } }',
               'def zq_exp { if zq_c == 1 { return "x" weighted 1 } }']
    names = set()
    for text in samples:
        for expose in (False, True):
            try:
                with contextlib.redirect_stdout(io.StringIO()), contextlib.redirect_stderr(io.StringIO()):
                    code = PythonCodeGen(parse_source(text), expose_experiment_variant_function=expose).generate()
                tree = _ast.parse(code)
            except Exception:
                continue
            def role(n, r):
                names.add(n)
                ROLES.setdefault(n, set()).add(r)
            for node in _ast.walk(tree):
                if isinstance(node, _ast.Name):
                    role(node.id, "stored" if isinstance(node.ctx, _ast.Store) else "loaded")
                elif isinstance(node, (_ast.FunctionDef, _ast.ClassDef)):
                    role(node.name, "defined")
                    if isinstance(node, _ast.FunctionDef):
                        for a_ in (node.args.vararg, node.args.kwarg):
                            if a_ is not None:
                                role(a_.arg, "vararg")
                elif isinstance(node, _ast.arg):
                    role(node.arg, "param")
                elif isinstance(node, _ast.keyword) and node.arg:
                    role(node.arg, "kwarg")
                elif isinstance(node, _ast.alias):
                    role((node.asname or node.name).split(".")[0], "imported")
                elif isinstance(node, _ast.Attribute):
                    role(node.attr, "attr")
                if isinstance(node, _ast.Call) and isinstance(node.func, _ast.Name):
                    role(node.func.id, "called")
                if isinstance(node, _ast.Raise) and node.exc is not None:
                    f_ = node.exc.func if isinstance(node.exc, _ast.Call) else node.exc
                    if isinstance(f_, _ast.Name):
                        role(f_.id, "raised")
    import re as _re
    own = {"zq_exp", "zq_a", "zq_b", "zq_c", "zq_d"}
    dsl_kw = {"in", "not", "def", "if", "else", "return", "and", "or", "salt", "splitters", "weighted"}
    return sorted(n for n in names - own - dsl_kw if _re.fullmatch(r"[a-zA-Z_][a-zA-Z0-9_]*", n) and n not in keyword.kwlist)


def name_programs(names):
    out = []
    for n in names:
        body = If(((Cmp(Id("fld"), "==", Lit(1)), R()),), R())
        out.append(("id-as-splitter", n, relabel(Program("exp", body, None, (n,)))))
        body = If(((Cmp(Id(n), "==", Lit(1)), R()),), R())
        out.append(("id-as-condition", n, relabel(Program("exp", body, None, ("uid",)))))
        out.append(("id-as-both", n, relabel(Program("exp", body, "s", (n, "uid")))))
        body2 = If(((Cmp(Id(n), ">", Lit(1)), R()),), R())
        out.append(("id-as-condition", n, relabel(Program("exp", body2, "s", ("uid",)))))
        out.append(("id-as-name", n, relabel(Program(n, If(((Cmp(Id("fld"), ">", Lit(0)), R()),), None), None, ("uid",)))))
    return out


def structure_programs():
    out = []
    # shared splitter / condition fields (language/README.rst "Complete Example")
    out.append(("shared", None, relabel(Program("complex_experiment", If((
        (And(Cmp(Id("age"), ">=", Lit(21)), Cmp(Id("country"), "in", Tup((Lit("US"), Lit("CA"))))), R(3)),
        (Cmp(Id("country"), "not in", Tup((Lit("US"), Lit("CA")))), R(2))), R()), "user_exp_v1", ("user_id", "country")))))
    out.append(("shared", None, relabel(Program("e", If(((Cmp(Id("a"), "<", Id("b")), R()),), R()), None, ("b", "a")))))
    # identifiers / tuples inside tuples
    for op in ("in", "not in"):
        out.append(("tuple-ids", None, relabel(Program("e", If(((Cmp(Id("x"), op, Tup((Id("y"), Lit(2)))), R()),), R()), None, ("u",)))))
        out.append(("tuple-ids", None, relabel(Program("e", If(((Cmp(Id("x"), op, Tup((Lit(1), Id("y"), Id("z")))), R()),), None), None, ("u",)))))
        out.append(("tuple-ids", None, relabel(Program("e", If(((Cmp(Id("s"), op, Tup((Lit("a"), Id("t")))), R()),), R()), None, ("u",)))))
        out.append(("nested-tuples", None, relabel(Program("e", If(((Cmp(Tup((Lit(1), Lit(2))), op, Tup((Tup((Lit(1), Lit(2))), Lit(3)))), R()),), R()), None, ("u",)))))
        out.append(("nested-tuples", None, relabel(Program("e", If(((Cmp(Tup((Id("x"), Lit(2))), op, Tup((Tup((Lit(1), Lit(2))), Tup((Lit(3), Lit(2)))))), R()),), R()), None, ("u",)))))
        out.append(("single-tuple", None, relabel(Program("e", If(((Cmp(Id("x"), op, Tup((Lit(7),))), R()),), R()), None, ("u",)))))
    # tuples made of identifiers only, identifiers on both sides, literal on the left
    for op in ("in", "not in"):
        out.append(("tuple-ids", None, relabel(Program("e", If(((Cmp(Id("x"), op, Tup((Id("y"), Id("z")))), R()),), R()), None, ("u",)))))
        out.append(("tuple-ids", None, relabel(Program("e", If(((Cmp(Id("x"), op, Tup((Id("y"),))), R()),), None), None, ("u",)))))
        out.append(("tuple-ids", None, relabel(Program("e", If(((Cmp(Lit(-2), op, Tup((Lit(-2), Lit(-0.5), Id("y")))), R()),), R()), None, ("u",)))))
    # identifiers ONLY inside nested tuples (none at the top level), at depth 2 and 3, on either side
    for op in ("in", "not in", "=="):
        deep2 = Tup((Tup((Lit(0), Lit(0))), Tup((Id("lo"), Lit(10)))))
        deep3 = Tup((Lit(1), Tup((Lit("s"), Tup((Id("hi"), Lit(-1)))))))
        out.append(("nested-ids", None, relabel(Program("e", If(((Cmp(Id("pair"), op, deep2), R()),), R()), None, ("u",)))))
        out.append(("nested-ids", None, relabel(Program("e", If(((Cmp(Id("x"), op, deep3), R()),), None), None, ("u",)))))
        out.append(("nested-ids", None, relabel(Program("e", If(((Cmp(deep2, op, Tup((deep2, Lit(3)))), R()),), R()), None, ("u",)))))
    out.append(("ids-both-sides", None, relabel(Program("e", If(((Cmp(Id("a"), "<=", Id("b")), R()), (Cmp(Id("b"), "!=", Id("c")), R())), None), None, ("u",)))))
    # no splitters (random draw), no salt / salt only, weights 0 and decimal, single group
    out.append(("no-splitters", None, relabel(Program("e", If(((Cmp(Id("f"), "==", Lit("")), R(2)),), R(1)), None, None))))
    out.append(("no-splitters", None, relabel(Program("e", R(3), "only_salt", None))))
    zero = Ret((Group(Lit("z0"), 0), Group(Lit("z1"), 2.5, "2.5"), Group(Lit(7), 0), Group(Lit(-1.5, text="-1.5"), 1)))
    out.append(("zero-weights", None, relabel(Program("e", If(((Cmp(Id("f"), ">", Lit(0)), zero),), Ret((Group(Lit("only"), 0.000000001, "0.000000001"),))), None, ("u",)))))
    # 64 groups, mixed literal kinds
    groups = tuple(Group(Lit("g%d" % i if i % 3 else i), 1 + i % 4) for i in range(64))
    out.append(("wide", None, relabel(Program("e", Ret(groups), None, ("u",)))))
    return out


def check_program(item):
    kind, name, prog, timeout_ms = item
    common.setup_path()
    tally = Tally()
    out = {"status": "ok", "kind": kind, "name": name, "witness": None, "paths": 0, "reach": 0, "encoded": {},
           "stubs": [], "text": None}
    try:
        text = dsl.program_text(prog)
    except ValueError as e:
        out["status"] = "skipped"
        out["tally"] = tally
        return out
    out["text"] = text
    gen = harness.real_generate(text)
    err = gen.error or (harness.real_python_compiles(gen.text) if gen.text else ("?", "no text"))
    if err:
        out["status"] = "violation"
        out["witness"] = {"kind": "compiles", "text": text, "why": "grammatical experiment does not compile: %s: %s" % err}
        out["tally"] = tally
        return out
    sorts, conflicts = dsl.infer_field_sorts(prog)
    if conflicts:
        out["status"] = "skipped"
        out["tally"] = tally
        return out
    kr = keyrun.keyed_run(prog, {}, gen=gen, text=text)
    out["paths"] = len(kr.run.paths)
    out["encoded"] = kr.run.encoded_digest()
    out["stubs"] = kr.run.notes
    rep = []
    for v in kr.kwargs.values():
        rep += harness.representable_constraint(v)
    for p in kr.run.paths:
        good = (isinstance(p.outcome, Return) and isinstance(p.outcome.value, harness.Choice)) or \
               (isinstance(p.outcome, Raise) and p.outcome.exc_name == "ExperimentConditionalFailedError")
        r, m = common.check(tally, list(p.conds) + rep, timeout_ms, label="C07 path feasible (%s)" % kind, keep_sample=not good)
        if r == "unknown":
            r, m = common.check(tally, list(p.conds), timeout_ms)
        if r == "unsat":
            continue
        if r == "unknown":
            out["status"] = "inconclusive"
            out["note"] = "unknown on path feasibility"
            continue
        if good:
            out["reach"] += 1
            continue
        if isinstance(p.outcome, Unsup):
            out["status"] = "inconclusive"
            out["note"] = "unsupported on feasible path: " + p.outcome.reason
            continue
        fields = {k: harness.model_value(m, v) for k, v in kr.kwargs.items()}
        out["status"] = "violation"
        out["witness"] = {"kind": "compiles", "text": text, "fields": {k: enc(v) for k, v in fields.items()},
                          "why": "evaluation on type-compatible inputs %r ends in %r" % (fields, p.outcome)}
        break
    out["tally"] = tally
    return out


def real_compiles(text):
    from pyab_experiment.experiment_evaluator import ExperimentEvaluator
    try:
        with contextlib.redirect_stdout(io.StringIO()), contextlib.redirect_stderr(io.StringIO()):
            ExperimentEvaluator(text)
        return None
    except Exception as e:
        return "%s: %s" % (type(e).__name__, str(e)[:100])


def classify_known(r, known):
    """-> finding dict if the violation belongs to a listed class"""
    for f in known:
        cls = f.get("class")
        if cls == "python-reserved-word" and r["name"] in RESERVED and r["kind"].startswith("id-as"):
            return f
        if cls == "helper-name" and r["kind"].startswith("id-as") and (r["name"] in HELPERS or resolved_at_run_time(r["name"])):
            return f
    return None


def main(tier):
    common.setup_path()
    from vf.families import programs as pf
    rep = common.Reporter(PROP)
    rng = random.Random(common.seed())
    tally = Tally()
    K = 18 if tier == "quick" else 24
    timeout_ms = 120000 if tier == "quick" else 1800000
    witnesses = []
    # ---- lexical ----------------------------------------------------------------------
    A, info = lexcommon.run({"accept", "values"})
    for f in A.findings:
        witnesses.append((None, lexcommon.witness_payload(f)))
    tally.merge(A.tally)
    # ---- syntactic --------------------------------------------------------------------
    gi, parser_cls = cyk.live_grammar()
    gr = cyk.ref_grammar()
    r, seq = cyk.compare(gi, gr, K, timeout_ms, "ref_not_impl", tally=tally,
                         label="CFG: a sentence (<= %d tokens) of the documented grammar that the live grammar does not derive" % K)
    if r == "unknown":
        rep.inconc("solver unknown on grammar inclusion (K=%d)" % K)
    elif r == "sat":
        witnesses.append((None, {"kind": "compiles", "text": rg.render(seq),
                                 "why": "the documented grammar derives %s, the live grammar does not" % " ".join(seq)}))
    sentences, blocked = [], []
    lengths = [8, 9, 11, 12, 13, 14, 15, 16, 17, 18] + ([19, 20, 21, 22, 23, 24] if tier == "thorough" else [])
    for n in lengths:
        for _ in range(4 if tier == "quick" else 10):
            r3, s3 = cyk.compare(gi, gr, max(n, 8), 60000, "both", exact_len=n, tally=tally, blocked=blocked,
                                 label="CFG: enumerate sentence of length %d" % n)
            if r3 != "sat":
                break
            blocked.append(s3)
            sentences.append(s3)
    n_valid = 0
    if not sentences:
        rep.inconc("vacuity: no common sentence enumerated")
    for s in sentences:
        text = rg.render(s)
        n_valid += 1
        e = real_compiles(text)
        if e:
            witnesses.append((None, {"kind": "compiles", "text": text, "why": "solver-generated sentence of both grammars is "
                                     "rejected by the real pipeline (%s): tables/driver disagree with the grammar" % e}))
    # ---- code generation + evaluation ---------------------------------------------------
    fam = []
    fam += [(k, n, p) for k, n, p in name_programs(POOL_PLAIN)]
    vocab = [n for n in generated_vocabulary() if n not in HELPERS and n not in POOL_PLAIN]
    fam += [(k, n, p) for k, n, p in name_programs(RESERVED + HELPERS + vocab)]
    fam += structure_programs()
    fam += [("doc", None, p) for p in pf.documented_programs()]
    fam += [("tuple-ids", None, p) for p in pf.single_predicate_programs(include_tuple_ids=True)
            if "y, 2" in dsl.program_text(p) or "y, z" in dsl.program_text(p)]
    fam += [("deep", None, p) for p in pf.deep_programs()]
    fam += [("deep-combined", None, p) for p in pf.combined_deep_programs()]
    routing = pf.routing_family("quick", common.seed())
    rng.shuffle(routing)
    fam += [(k, None, p) for k, p in routing[: (150 if tier == "quick" else 1200)]]
    results = common.pmap(check_program, [(k, n, p, timeout_ms) for k, n, p in fam], chunksize=4)
    known = common.findings_for(PROP)
    n_paths = reach = 0
    texts = set()
    encoded, stubs = {}, set()
    known_hits = {}
    for r in results:
        tally.merge(r["tally"])
        n_paths += r["paths"]
        reach += r["reach"]
        encoded.update(r["encoded"])
        stubs.update(r["stubs"])
        if r["text"]:
            texts.add(r["text"])
        if r["status"] == "inconclusive":
            f = classify_known(r, known)
            if f is not None:
                # a member of a listed class (e.g. a field named choose_experiment_variant is rebound by the nested
                # def and its address-dependent str() becomes the key): counted under the finding, not decided here
                known_hits.setdefault(f["class"], [])
                continue
            rep.inconc("%s: %s" % (r["kind"], r.get("note")))
        elif r["status"] == "violation":
            witnesses.append((r, r["witness"]))
    from vf.props import glue
    try:
        gfind, gok, genc, gnotes = glue.analyse_all()
        witnesses += [(None, w) for w in glue.witnesses_for(PROP, gfind)]
    except common.Inconclusive as e:
        rep.inconc(str(e))
    seen = set()
    for r, w in witnesses:
        f = classify_known(r, known) if r is not None else None
        key = (w["why"][:50], f["class"] if f else None)
        if f is not None:
            known_hits.setdefault(f["class"], []).append((r, w))
            continue
        if len(rep.violations) >= 6 or key in seen:
            continue
        seen.add(key)
        payload = dict(w)
        payload["property"] = PROP
        o = common.run_replay_subprocess(payload)
        payload["replay_result"] = o
        summary = "%s | %s" % (w["why"], o.get("observed", ""))
        if o.get("reproduced"):
            rep.violation(payload, summary)
        else:
            rep.inconc("witness did not reproduce: " + summary)
    # listed findings: still present? (replayed once per class)
    for f in known:
        hits = known_hits.get(f["class"], [])
        if not hits:
            continue
        r, w = hits[0]
        o = common.run_replay_subprocess(dict(w, property=PROP))
        if o.get("reproduced"):
            rep.known_finding("%s (%d family members; e.g. %s)" % (f["what"], len(hits), r["name"]))
    coverage = {
        "programs": len(texts),
        "disagreements_checked": tally.unsat + tally.sat,
        "samples": tally.samples[:4] or [{"note": "none"}],
        "lexer_rules": info["rules"]["ExperimentLexer"][:3] + [{"note": "... %d rules" % len(info["rules"]["ExperimentLexer"])}],
        "lemmas_discharged": info["discharged"],
        "token_bound_K": K,
        "sentences_through_the_real_pipeline": n_valid,
        "traces_validated_against_impl": n_valid,
        "paths": n_paths,
        "reachability_twins_passed": reach + info["twins"],
        "known_finding_members": {k: len(v) for k, v in known_hits.items()},
        "queries": tally.as_dict(),
        "functions_encoded": encoded,
        "stubs_used": sorted(stubs),
        "bounds": "lexical: every lexeme and right context, unbounded; syntactic: <= %d tokens; code generation: identifier "
                  "pool of %d names x 4 positions, structure programs (nesting 12, chain 60, 64 groups), %d routing-family "
                  "members; all type-compatible field values per program" % (K, len(POOL_PLAIN) + len(RESERVED) + len(HELPERS), len(routing[:150])),
    }
    common.write_evidence(PROP, "translation_validation", coverage,
                          ["sly LALR tables + driver accept L(G_impl) (validated on solver-generated sentences)",
                           "type-compatible = field sorts inferred by unification over the reference AST"],
                          rep.wall, len(rep.violations), tier)
    print("C07: %d lexical lemmas, K=%d, %d sentences, %d programs, %d paths, queries %s, wall %.1fs" % (
        len(info["discharged"]), K, n_valid, len(texts), n_paths, tally.as_dict(), rep.wall))
    return rep.exit_code()
