"""C12 -- the published bucketing scheme is pinned.

Lemmas (all decided by z3, MD5 an uninterpreted function shared by both sides):
  L1  deterministic_proba(s) == top32(MD5(utf8(s))) / 2^32          for every string s
  L2  per program of the splitter family: the key handed to the choice function ==
      salt . str(v_f1) ... str(v_fm), f sorted, for all field values, on every path
  L3  deterministic_choice hands exactly its input_id, once, to deterministic_proba
Known-answer vectors tie the symbol MD5 to hashlib.md5 (translator validation).
"""
from __future__ import annotations

import hashlib
import time

import z3

from vf import common, harness, keyrun
from vf.common import Tally
from vf.pysym import api, ops
from vf.pysym.explore import Return, Raise, Unsup
from vf.pysym.values import SStr, SFP, SInt, Sym, FP64, RNE, fp_const
from vf.ref import dsl, scheme
from vf.replay import enc

PROP = "C12"
BINNING = "pyab_experiment.binning.binning"

ABS = {"abstract_int_str": True}


def scalar_strings(term):
    """strings over Unicode scalar values (no lone surrogates), z3 character range"""
    rng = z3.Union(z3.Range(chr(0), chr(0xD7FF)), z3.Range(chr(0xE000), chr(0x2FFFF)))
    return z3.InRe(term, z3.Star(rng))


def proba_recorder(ctx, interp, args, kwargs):
    arg = args[0] if args else kwargs.get("input_string")
    ctx.recorded.append(("proba_arg", arg))
    k = z3.BitVec(ctx.fresh_name("pos_k"), 32)
    ctx.recorded.append(("pos_k", k))
    return SFP(z3.fpDiv(RNE, z3.fpUnsignedToFP(RNE, k, FP64), fp_const(float(2 ** 32))))


# ------------------------------------------------------------------------------------
def lemma_proba(timeout_ms):
    """-> dict(status, tally, witness...)"""
    common.setup_path()
    tally = Tally()
    key = SStr(z3.String("key"))
    assume = [scalar_strings(key.term)]
    run = api.run(api.call_module_function(BINNING, "deterministic_proba", [key]),
                  opts={"float_mode": "fp", "prune": True}, assumptions=assume)
    out = {"lemma": "L1 proba", "status": "ok", "paths": len(run.paths), "encoded": run.encoded_digest(),
           "stubs": run.notes, "witnesses": [], "reach": 0}
    ref = scheme.ref_position_fp(key)
    for p in run.paths:
        if isinstance(p.outcome, Unsup):
            out["status"] = "inconclusive"
            out["note"] = p.outcome.reason
            # the region of keys this path is responsible for cannot be decided symbolically.  If it is delimited by the
            # LENGTH of the key, keys of the lengths around the constants in the path condition are tried on the real
            # function (a search, like the other concretisations: a hit is a replayed violation, a miss leaves exit 2)
            lens = set()

            def walk(t):
                if z3.is_app(t) and t.decl().kind() in (z3.Z3_OP_LE, z3.Z3_OP_LT, z3.Z3_OP_GE, z3.Z3_OP_GT, z3.Z3_OP_EQ):
                    a_, b_ = t.arg(0), t.arg(1)
                    for x, y in ((a_, b_), (b_, a_)):
                        if z3.is_int_value(y) and "Length" in str(x.decl() if z3.is_app(x) else x) or \
                                (z3.is_int_value(y) and "str.len" in x.sexpr()):
                            lens.add(y.as_long())
                for c_ in t.children():
                    walk(c_)
            for c in p.conds:
                walk(c)
            lens = sorted(l for l in lens if 2 <= l <= 1 << 24)
            if lens:
                out["witnesses"].append({"kind": "proba_search", "key": enc("k"), "lengths": lens,
                                         "why": "deterministic_proba leaves the encodable subset for keys delimited by length %s (%s)"
                                                % (lens, p.outcome.reason)})
            continue
        r, m = common.check(tally, p.conds, timeout_ms)
        if r == "unsat":
            continue
        if r == "unknown":
            out["status"] = "inconclusive"
            out["note"] = "unknown on reachability"
            continue
        out["reach"] += 1
        if isinstance(p.outcome, Raise):
            out["witnesses"].append({"kind": "proba", "key": enc(harness.model_value(m, key)),
                                     "why": "deterministic_proba raises %s" % p.outcome.exc_name})
            continue
        v = p.outcome.value
        if not isinstance(v, SFP):
            if isinstance(v, float):
                v = SFP(fp_const(v))
            else:
                out["witnesses"].append({"kind": "proba", "key": enc(harness.model_value(m, key)),
                                         "why": "deterministic_proba returns %s" % type(v).__name__})
                continue
        q = p.conds + [z3.Not(z3.fpEQ(v.term, ref))]
        r, m = common.check(tally, q, timeout_ms, label="L1: proba(s) != top32(md5(utf8 s))/2^32", keep_sample=True)
        if r == "unknown":
            out["status"] = "inconclusive"
            out["note"] = "unknown on L1"
        elif r == "sat":
            out["witnesses"].append({"kind": "proba", "key": enc(harness.model_value(m, key)),
                                     "why": "position differs from the scheme"})
        rng_q = p.conds + [z3.Not(z3.And(z3.fpGEQ(v.term, fp_const(0.0)), z3.fpLT(v.term, fp_const(1.0))))]
        r, m = common.check(tally, rng_q, timeout_ms, label="L1: 0 <= proba < 1")
        if r != "unsat":
            out["status"] = "inconclusive" if r == "unknown" else out["status"]
            if r == "sat":
                out["witnesses"].append({"kind": "proba", "key": enc(harness.model_value(m, key)),
                                         "why": "position outside [0,1)"})
    out["tally"] = tally
    return out


FORWARD_CONFIGS = ["weights", "uniform", "cum", "single"]


def lemma_forward(timeout_ms, only=None):
    common.setup_path()
    tally = Tally()
    out = {"lemma": "L3 forward", "status": "ok", "paths": 0, "witnesses": [], "encoded": {}, "stubs": [],
           "reach": 0}
    uid = SStr(z3.String("input_id"))
    configs = [
        ("weights", (["A", "B", "C"],), {"weights": [1, 2, 3]}),
        ("uniform", (["A", "B", "C", "D"],), {}),
        ("cum", (["A", "B"],), {"cum_weights": [1.5, 4.0]}),
        ("single", (["A"],), {"weights": [0.5]}),
    ]
    for name, args, kwargs in configs:
        if only is not None and name != only:
            continue

        def setup(it):
            it.call_overrides["pyab_experiment.binning.binning:deterministic_proba"] = proba_recorder
        run = api.run(api.call_module_function(BINNING, "deterministic_choice", [uid] + list(args), kwargs),
                      opts={"float_mode": "fp", "prune": False}, setup=setup)
        out["paths"] += len(run.paths)
        out["encoded"].update(run.encoded_digest())
        out["stubs"] = sorted(set(out["stubs"]) | set(run.notes))
        for p in run.paths:
            if isinstance(p.outcome, Unsup):
                out["status"] = "inconclusive"
                out["note"] = p.outcome.reason
                continue
            r, m = common.check(tally, p.conds, timeout_ms)
            if r == "unsat":
                continue
            if r == "unknown":
                out["status"] = "inconclusive"
                out["note"] = "unknown on reachability (forward)"
                continue
            out["reach"] += 1
            argsrec = [v for t, v in p.recorded if t == "proba_arg"]
            if isinstance(p.outcome, Raise):
                out["witnesses"].append({"kind": "choice", "args": [enc("some-id"), enc(args[0])],
                                         "kwargs": {k: enc(v) for k, v in kwargs.items()},
                                         "expected": {"not_raises": True},
                                         "why": "deterministic_choice raises %s on a valid call" % p.outcome.exc_name})
                continue
            if len(argsrec) != 1:
                out["witnesses"].append({"kind": "choice_scheme", "config": name,
                                         "args": [enc(harness.model_value(m, uid)), enc(args[0])],
                                         "kwargs": {k: enc(v) for k, v in kwargs.items()},
                                         "why": "%d hash computations for one choice (%s)" % (len(argsrec), name)})
                continue
            a = argsrec[0]
            if not ops.is_strlike(a):
                out["witnesses"].append({"kind": "forward", "config": name, "why": "hash argument is %s" % type(a).__name__})
                continue
            r, m = common.check(tally, p.conds + [ops.str_term(a) != uid.term], timeout_ms,
                                label="L3: hashed string != input_id (%s)" % name, keep_sample=True)
            if r == "unknown":
                out["status"] = "inconclusive"
                out["note"] = "unknown on L3"
            elif r == "sat":
                out["witnesses"].append({"kind": "choice_scheme", "config": name,
                                         "args": [enc(harness.model_value(m, uid)), enc(args[0])],
                                         "kwargs": {k: enc(v) for k, v in kwargs.items()},
                                         "hashed": repr(harness.model_value(m, a) if isinstance(a, Sym) else a),
                                         "why": "the hashed string is not the input_id (%s)" % name})
    out["tally"] = tally
    return out


def lemma_key(item):
    bname, prog, typing, timeout_ms = item
    common.setup_path()
    tally = Tally()
    out = {"lemma": "L2 key", "status": "ok", "paths": 0, "witnesses": [], "body": bname,
           "typing": typing, "reach": 0, "validated": 0}
    kr = keyrun.keyed_run(prog, typing, opts=ABS)
    out["text"] = kr.text
    if kr.run is None:
        out["status"] = "nocompile"
        out["note"] = str(kr.gen.error)
        out["tally"] = tally
        return out
    out["paths"] = len(kr.run.paths)
    out["encoded"] = kr.run.encoded_digest()
    out["stubs"] = kr.run.notes
    ref_key = scheme.ref_key_term(prog.salt, prog.splitters, kr.spl, ABS)
    rep = []
    for v in kr.kwargs.values():
        rep += harness.representable_constraint(v)
    for p in kr.run.paths:
        if isinstance(p.outcome, Unsup):
            r, m = common.check(tally, p.conds, timeout_ms)
            if r != "unsat":
                out["status"] = "inconclusive"
                out["note"] = p.outcome.reason
            continue
        if isinstance(p.outcome, Raise):
            continue   # routing outcomes are C02's business
        v = p.outcome.value
        if not isinstance(v, harness.Choice):
            continue
        k = v.key
        if not ops.is_strlike(k):
            r, m = common.check(tally, p.conds + rep, timeout_ms)
            if r == "sat":
                out["witnesses"].append(_key_witness(kr, m, "key is %s, not a string" % type(k).__name__))
            continue
        q = p.conds + [ops.str_term(k) != ops.str_term(ref_key)]
        r, m = common.check(tally, q, timeout_ms, label="L2: key != salt + str(sorted splitter values)",
                            keep_sample=True)
        if r == "unknown":
            out["status"] = "inconclusive"
            out["note"] = "unknown on L2"
        elif r == "sat":
            r2, m2 = common.check(tally, q + rep, timeout_ms)
            out["witnesses"].append(_key_witness(kr, m2 if r2 == "sat" else m, "hashed key differs from the scheme"))
        else:
            out["reach"] += 1
    out["tally"] = tally
    return out


def _key_witness(kr, m, why):
    fields = kr.fields(m)
    return {"kind": "key", "text": kr.text, "fields": {k: enc(v) for k, v in fields.items()},
            "salt": kr.prog.salt, "splitters": list(kr.prog.splitters or ()), "why": why,
            "plain_fields": repr(fields)}


KNOWN_ANSWERS = [
    # (string, first 8 hex digits of its MD5 -- RFC 1321 test suite and independent tools)
    ("", "d41d8cd9"), ("a", "0cc175b9"), ("abc", "90015098"), ("message digest", "f96b697d"),
    ("abcdefghijklmnopqrstuvwxyz", "c3fcd3d7"),
    ("12345678901234567890123456789012345678901234567890123456789012345678901234567890", "57edf4a2"),
]


def known_answers():
    """Anchors: the symbol md5_utf8 stands for hashlib.md5; whole-chain assignments from the
    description alone equal the evaluator's on fixed vectors."""
    from pyab_experiment.binning.binning import deterministic_proba
    from pyab_experiment.experiment_evaluator import ExperimentEvaluator
    n = 0
    bad = []
    for s, hx in KNOWN_ANSWERS:
        want = int(hx, 16) / 2 ** 32
        try:
            got = deterministic_proba(s)
        except Exception as e:
            got = "raised %s" % type(e).__name__
        n += 1
        if got != want:
            bad.append({"kind": "proba", "key": enc(s), "why": "known answer %s: got %r want %r" % (hx, got, want)})
    text = ('def ka { salt: "s1" splitters: b, a return "g0" weighted 1, "g1" weighted 2, "g2" weighted 3.5, '
            '"g3" weighted 0, "g4" weighted 1 }')
    ev = ExperimentEvaluator(text)
    groups, weights = ["g0", "g1", "g2", "g3", "g4"], [1, 2, 3.5, 0, 1]
    for a, b in [(1, "x"), ("u1", 2.5), (None, True), (10 ** 20, ""), ("k", "k"), (0, 0), (-1, "é" if False else "e")]:
        key = scheme.py_key("s1", ["b", "a"], {"a": a, "b": b})
        want = groups[scheme.py_select(scheme.py_position_k(key), weights)]
        try:
            got = ev(a=a, b=b)
        except Exception as e:
            got = "raised %s" % type(e).__name__
        n += 1
        if got != want:
            bad.append({"kind": "key", "text": text, "fields": {"a": enc(a), "b": enc(b)}, "salt": "s1",
                        "splitters": ["b", "a"], "why": "known-answer assignment: got %r want %r" % (got, want)})
    return n, bad


def _dispatch(args):
    if len(args) == 2:
        name, timeout_ms = args
        if name == "proba":
            return lemma_proba(timeout_ms)
        return lemma_forward(timeout_ms, only=name.split(":")[1])
    return lemma_key(args)


def main(tier):
    common.setup_path()
    from vf.families import splitters as sf
    rep = common.Reporter(PROP)
    timeout_ms = 60000 if tier == "quick" else 600000
    fam = sf.splitter_family(tier, common.seed())
    items = []
    for bname, prog in fam:
        for ty in sf.typings(prog.splitters, tier, common.seed()):
            items.append((bname, prog, ty, timeout_ms))
    results = common.pmap(_dispatch, [("proba", timeout_ms)] + [("forward:" + c, timeout_ms) for c in FORWARD_CONFIGS] + items, chunksize=2)
    n_ka, bad_ka = known_answers()

    total = Tally()
    encoded, stubs = {}, set()
    n_paths = reach = 0
    texts = set()
    known = common.findings_for(PROP)
    reported = set()
    for r in results:
        total.merge(r["tally"])
        n_paths += r["paths"]
        reach += r.get("reach", 0)
        encoded.update(r.get("encoded") or {})
        stubs.update(r.get("stubs") or [])
        if r.get("text"):
            texts.add(r["text"])
        if r["status"] == "inconclusive":
            rep.inconc("%s: %s" % (r["lemma"], r.get("note")))
        if r["status"] == "nocompile":
            rep.inconc("family member does not compile (%s): %s" % (r.get("note"), r["text"][:80]))
        for w in r["witnesses"]:
            _report(rep, w, r["lemma"], reported, known)
    for w in bad_ka:
        _report(rep, w, "known answers", reported, known)

    coverage = {
        "programs": len(texts),
        "disagreements_checked": total.unsat + total.sat,
        "samples": total.samples[:4] or [{"note": "none"}],
        "lemmas": ["L1 proba(s) = top32(MD5(utf8 s))/2^32 for all strings s", "L2 key = salt.str(sorted splitters) "
                   "for all field values, per program x typing", "L3 choice hashes exactly its input_id once"],
        "program_typings_checked": len(items),
        "paths": n_paths,
        "reachability_twins_passed": reach,
        "queries": total.as_dict(),
        "known_answer_vectors": n_ka,
        "traces_validated_against_impl": n_ka,
        "functions_encoded": encoded,
        "stubs_used": sorted(stubs),
        "bounds": "strings: all strings over Unicode scalar values up to U+2FFFF (z3's character sort), no length "
                  "bound; splitter values: str / int below CPython's str() digit limit (10^4300) / float (str(float) uninterpreted) / True / False / None; "
                  "programs: the splitter family (1-4 splitters, every declaration order, 9 salts, 4 bodies)",
    }
    common.write_evidence(PROP, "translation_validation", coverage,
                          ["hashlib.md5 is a deterministic total function of its bytes (uninterpreted md5_utf8)",
                           "str() of int/bool/None as in vf/pysym/ops.py; str(float) uninterpreted",
                           "alphabetical = code-point order of field names (Python sorted)"],
                          rep.wall, len(rep.violations), tier)
    if getattr(rep, "suppressed", 0):
        print("(%d further witnesses not replayed after the first 5 violations)" % rep.suppressed)
    print("C12: %d programs, %d typings, %d paths, queries %s, known answers %d, wall %.1fs" % (
        len(texts), len(items), n_paths, total.as_dict(), n_ka, rep.wall))
    return rep.exit_code()


def _report(rep, w, lemma, reported, known):
    why = w.get("why", "")
    if w["kind"] in ("forward",):
        # structural witness without a public-API replay: demonstrate through a key replay
        rep.inconc("%s: %s (%s)" % (lemma, why, {k: v for k, v in w.items() if k not in ("kind", "why")}))
        return
    sig = (w["kind"], why, w.get("text", "")[:0])
    if len(rep.violations) >= 5:
        rep.suppressed = getattr(rep, "suppressed", 0) + 1
        return
    payload = dict(w)
    payload["property"] = PROP
    payload.pop("plain_fields", None)
    out = common.run_replay_subprocess(payload)
    payload["replay_result"] = out
    summary = "%s: %s; %s | %s" % (lemma, why, w.get("plain_fields", ""), out.get("observed", ""))
    if not out.get("reproduced") and w["kind"] == "proba":
        # the solver's witness rests on an uninterpreted function (a digest or a string transformation): look for a key on
        # which the real code shows the deviation
        p2 = dict(payload)
        p2["kind"] = "proba_search"
        out2 = common.run_replay_subprocess(p2)
        if out2.get("reproduced"):
            payload = p2
            payload["replay_result"] = out2
            out = out2
            summary = "%s: %s | %s" % (lemma, why, out.get("observed", ""))
    if out.get("reproduced"):
        for f in known:
            if _matches(f, w, out):
                rep.known_finding(f["what"])
                return
        if sig in reported and len(rep.violations) >= 6:
            return
        reported.add(sig)
        rep.violation(payload, summary)
    else:
        rep.inconc("witness did not reproduce: " + summary)


def _matches(f, w, out):
    """known-finding classes of C12 (see known_findings.json)"""
    cls = f.get("class")
    if cls == "non-ascii-key":
        return "UnicodeEncodeError" in out.get("observed", "")
    return False
