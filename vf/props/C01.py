"""C01 -- assignment is a pure, process-independent function of source and inputs.

 (a) the generated function + deterministic_choice + deterministic_proba + bisect, executed
     symbolically (MD5 uninterpreted, bit-precise floats): on every path the effect set is
     empty (nothing that outlives the call is written) and no process-local entropy source
     (hash(), id(), set order, environ, cwd, locale, time, random, module state) is read;
     where one is read, a two-world self-composition asks z3 whether the outcome can differ;
 (b) the real PythonCodeGen.generate() is executed symbolically on the live AST with set
     iteration order chosen by the 'world': all worlds must produce the same text;
 (c) ExperimentEvaluator.__call__ adds no state (C11's step analysis, re-run here).
The lexer / LALR tables are executed concretely; their independence from PYTHONHASHSEED is
outside the solver's claim and is only exercised by the two-process replay.
"""
from __future__ import annotations

import z3

from vf import common, harness, keyrun, relational
from vf.common import Tally
from vf.pysym import api
from vf.pysym.explore import Return, Raise, Unsup
from vf.pysym.values import Sym, SStr, SFP, FP64
from vf.ref import dsl
from vf.replay import enc
from vf.props import C11, C15

PROP = "C01"
GEN = "pyab_experiment.codegen.python.python_generator"


def world_consts(terms):
    found = {}

    def rec(t):
        if z3.is_const(t) and t.decl().kind() == z3.Z3_OP_UNINTERPRETED and "world:" in t.decl().name():
            found[t.decl().name()] = t
        for c in t.children():
            rec(c)
    for t in terms:
        rec(t)
    return list(found.values())


def outcome_terms(o):
    out = []

    def rec(v):
        if isinstance(v, Sym):
            out.append(v.term)
        elif isinstance(v, (list, tuple)):
            for e in v:
                rec(e)
        elif isinstance(v, harness.Choice):
            rec(v.key)
    if isinstance(o, Return):
        rec(o.value)
    return out


def sample_fields(prog, typing):
    vals = {"str": ["u1", "user-42", ""], "int": [7, 0, -3], "float": [2.5, 1e20], "fp": [2.5],
            "true": [True], "false": [False], "none": [None]}
    rows = []
    for i in range(24):
        f = {}
        for j, n in enumerate(prog.splitters):
            ch = vals.get(typing.get(n, "str"), ["x"])
            v = ch[(i + j) % len(ch)]
            # different fields get different values, so that a permuted key is a different key
            if isinstance(v, str):
                v = "%s%d_%s" % (v, i, "abcdefgh"[j % 8] * (j + 1))
            elif isinstance(v, (int, float)) and not isinstance(v, bool):
                v = v + i + 1000 * (j + 1)
            f[n] = v
        rows.append(f)
    return rows


def check_chain(item):
    bname, prog, typing, timeout_ms = item
    common.setup_path()
    tally = Tally()
    out = {"status": "ok", "witnesses": [], "paths": 0, "reach": 0, "encoded": {}, "stubs": [], "text": None,
           "name": "chain"}
    text = dsl.program_text(prog)
    out["text"] = text
    gen = harness.real_generate(text)
    if gen.error or gen.text is None:
        out["status"] = "nocompile"
        out["note"] = str(gen.error)
        out["tally"] = tally
        return out
    env, spl, kwargs = keyrun.make_inputs(prog, {})
    for n in prog.splitters:
        kwargs[n] = C15.spl_value(n, typing[n]) if typing[n] == "fp" else keyrun.splitter_value(n, typing[n])
    cond_defaults = {}
    for k, v in env.items():
        cond_defaults[k] = v
    run = harness.run_generated(gen.text, gen.fn_name, kwargs, stub_choice=False,
                                opts={"float_mode": "fp", "prune": False})
    out["paths"] = len(run.paths)
    out["encoded"] = run.encoded_digest()
    out["stubs"] = run.notes

    def witness(why, m=None):
        rows = sample_fields(prog, typing)
        if m is not None:
            try:
                row = {}
                for k, v in kwargs.items():
                    val = harness.model_value(m, v)
                    row[k] = keyrun.typed_value(val, "float" if typing.get(k) == "fp" else typing.get(k))
                rows = [dict(row) for _ in range(4)] + rows      # the solver's input first, repeated
            except Exception:
                pass
        for r_ in rows:
            for k, v in env.items():
                r_.setdefault(k, 1 if not isinstance(v, SStr) else "a")
        return {"kind": "process_independence", "text": text, "rows": [{k: enc(v) for k, v in r_.items()} for r_ in rows],
                "why": why, "plain": ""}

    for p in run.paths:
        worldly = [n for n in p.notes if n.startswith("world:")]
        if isinstance(p.outcome, Unsup):
            r, m = common.check(tally, harness.abstract_digests(p.conds), timeout_ms, label="C01 unsupported path feasible?")
            if r == "unsat":
                continue
            if worldly:
                out["witnesses"].append(witness("a process-local value (%s) flows into an operation outside the model (%s)"
                                                % (worldly[0], p.outcome.reason)))
            else:
                out["status"] = "inconclusive"
                out["note"] = "unsupported on feasible path: " + p.outcome.reason
            continue
        if p.effects:
            r, m = common.check(tally, harness.abstract_digests(p.conds), timeout_ms, label="C01 path with a persistent write feasible?",
                                keep_sample=True)
            if r != "unsat":
                out["witnesses"].append(witness("evaluation writes state that outlives the call: %s"
                                                % [(e[0], str(e[1])[:30], e[2]) for e in p.effects][:3]))
            continue
        terms = list(p.conds) + outcome_terms(p.outcome)
        wc = world_consts(terms)
        if wc or worldly:
            if not wc:
                continue   # read but irrelevant to conditions and outcome
            mapping = [(c, z3.Const(c.decl().name() + "__w2", c.sort())) for c in wc]
            conds2 = [z3.substitute(c, *mapping) for c in p.conds]
            # same inputs, two worlds: can another path / outcome be taken?
            others = [q for q in run.paths if q is not p]
            found = False
            for q in [p] + others:
                qc = [z3.substitute(c, *mapping) for c in q.conds]
                if q is p:
                    d = relational.differ_term(p.outcome, relational.rename_outcome(p.outcome, mapping))
                    if d is False:
                        continue
                    cons = harness.abstract_digests(list(p.conds) + qc + ([] if d is True else [d]))
                else:
                    d = relational.differ_term(p.outcome, q.outcome)
                    if d is False:
                        continue
                    cons = harness.abstract_digests(list(p.conds) + qc + ([] if d is True else [d]))
                r, m = common.check(tally, cons, min(timeout_ms, 20000), label="C01 two worlds, same inputs, different outcome",
                                    keep_sample=True, _retry=False)
                if r == "sat":
                    found = m
                    break
                if r == "unknown":
                    # too hard within the budget (bit-precise floats times a 53-bit random draw): fall back to any input
                    # that reaches this path; the replay then decides whether the outcome really varies
                    r2, m2 = common.check(tally, harness.abstract_digests(list(p.conds)), timeout_ms,
                                          label="C01 path reading a process-local value is reachable")
                    if r2 == "sat":
                        found = m2
                        break
                    out["status"] = "inconclusive"
                    out["note"] = "unknown on two-world query"
            if found is not False:
                out["witnesses"].append(witness("the outcome depends on a process-local value (%s)" % wc[0].decl().name(),
                                                found))
            continue
        if isinstance(p.outcome, Return) and out["reach"] == 0:
            r, m = common.check(tally, harness.abstract_digests(p.conds), timeout_ms, label="C01 reachability")
            if r == "sat":
                out["reach"] += 1
    out["tally"] = tally
    return out


def check_generator(item):
    bname, prog, timeout_ms = item
    common.setup_path()
    tally = Tally()
    out = {"status": "ok", "witnesses": [], "paths": 0, "reach": 0, "encoded": {}, "stubs": [], "text": None,
           "name": "generator"}
    text = dsl.program_text(prog)
    out["text"] = text
    gen = harness.real_generate(text)
    if gen.error or gen.ast is None:
        out["status"] = "nocompile"
        out["note"] = str(gen.error)
        out["tally"] = tally
        return out
    ast_ = gen.ast
    texts = {}
    for expose in (False, True):
        def entry(it, expose=expose):
            env = it.import_module(GEN)
            cls = env.vars["PythonCodeGen"]
            inst = it.call(cls, [ast_], {"expose_experiment_variant_function": expose})
            return it.call(it.getattr(inst, "generate"), [], {})
        run = api.run(entry, opts={"prune": False})
        out["paths"] += len(run.paths)
        out["encoded"].update(run.encoded_digest())
        out["stubs"] = sorted(set(out["stubs"]) | set(run.notes))
        outs = set()
        for p in run.paths:
            if isinstance(p.outcome, Unsup):
                worldly = [n for n in p.notes if n.startswith("world:")]
                if worldly:
                    outs.add("<unsupported after %s>" % worldly[0])
                else:
                    out["status"] = "inconclusive"
                    out["note"] = "code generator leaves the subset: " + p.outcome.reason
                continue
            if isinstance(p.outcome, Raise):
                outs.add("<raises %s>" % p.outcome.exc_name)
                continue
            if p.effects:
                foreign = [e for e in p.effects]
                out["witnesses"].append({"kind": "process_independence", "text": text, "rows": [],
                                         "why": "code generation writes shared state: %s" % [(e[0], e[2]) for e in foreign][:3],
                                         "plain": ""})
            v = p.outcome.value
            if isinstance(v, str):
                outs.add(v)
            else:
                # the generated text itself is symbolic: which process-local values does it contain?
                wc = world_consts([v.term]) if hasattr(v, "term") else []
                outs.add("<text depends on %s>" % ([c.decl().name() for c in wc] or "symbolic values"))
                outs.add("<symbolic>")
        if not expose:
            # translator validation: the interpreted generator reproduces the real text
            if gen.text in outs:
                out["reach"] += 1
            else:
                out["status"] = "inconclusive"
                out["note"] = "translator validation: pysym's generate() text differs from CPython's"
        if len(outs) > 1:
            rows = sample_fields(prog, {n: "str" for n in prog.splitters})
            for r_ in rows:
                for k in dsl.condition_fields(prog):
                    r_.setdefault(k, 1)
            out["witnesses"].append({"kind": "process_independence", "text": text,
                                     "rows": [{k: enc(v) for k, v in r_.items()} for r_ in rows],
                                     "why": "the generated code depends on set iteration order / process state: %d different "
                                            "texts over the worlds" % len(outs), "plain": ""})
    out["tally"] = tally
    return out


def real_parse_override(ctx, interp, args, kwargs):
    from pyab_experiment.utils.wraper_functions import parse_source
    import contextlib
    import io
    text = args[0] if args else kwargs.get("text")
    if not isinstance(text, str):
        raise common.Inconclusive("parse_source called with a symbolic text")
    with contextlib.redirect_stdout(io.StringIO()), contextlib.redirect_stderr(io.StringIO()):
        return parse_source(text)


def run_evaluator(prog, typing, text):
    """ExperimentEvaluator(text)(**fields) executed symbolically end to end (real parser run natively on the
    concrete text; code generator, compile/exec, recompile, __call__, generated function interpreted; the
    choice function reports (key, population, weights))."""
    env, spl, kwargs = keyrun.make_inputs(prog, {})
    for n in prog.splitters:
        kwargs[n] = keyrun.splitter_value(n, typing[n])

    def setup(it):
        it.call_overrides["parse_source"] = real_parse_override
        it.call_overrides["pyab_experiment.binning.binning:deterministic_choice"] = harness.choice_stub

    def entry(it):
        mod = it.import_module(harness.EVAL_MODULE)
        it.import_module("pyab_experiment.binning.binning")
        it.ctx.begin_call()
        ev = it.call(mod.vars["ExperimentEvaluator"], [text], {})
        return it.call(ev, [], dict(kwargs))
    run = api.run(entry, opts={"float_mode": "real", "prune": True, "abstract_int_str": True}, setup=setup)
    return run, kwargs, env


def check_evaluator(item):
    bname, prog, timeout_ms = item
    common.setup_path()
    tally = Tally()
    out = {"status": "ok", "witnesses": [], "paths": 0, "reach": 0, "encoded": {}, "stubs": [], "text": None,
           "name": "evaluator"}
    text = dsl.program_text(prog)
    out["text"] = text
    runs = {}
    for sort in ("int", "float", "str"):
        typing = {n: sort for n in prog.splitters}
        try:
            runs[sort] = run_evaluator(prog, typing, text)
        except common.Inconclusive as e:
            out["status"] = "inconclusive"
            out["note"] = str(e)
            out["tally"] = tally
            return out
        run = runs[sort][0]
        out["paths"] += len(run.paths)
        out["encoded"].update(run.encoded_digest())
        out["stubs"] = sorted(set(out["stubs"]) | set(run.notes))
    cached = None
    for sort, (run, kwargs, env) in runs.items():
        for p in run.paths:
            if isinstance(p.outcome, Unsup):
                r, m = common.check(tally, p.conds, timeout_ms)
                if r != "unsat":
                    worldly = [n for n in p.notes if n.startswith("world:")]
                    if worldly:
                        rows = sample_fields(prog, {n: sort for n in prog.splitters})
                        for r_ in rows:
                            for k in env:
                                r_.setdefault(k, 1)
                        out["witnesses"].append({"kind": "process_independence", "text": text,
                                                 "rows": [{k: enc(v) for k, v in r_.items()} for r_ in rows],
                                                 "why": "a process-local value (%s) flows into construction/evaluation (%s)"
                                                        % (worldly[0], p.outcome.reason), "plain": ""})
                    else:
                        out["status"] = "inconclusive"
                        out["note"] = "evaluator path leaves the subset: " + p.outcome.reason
                continue
            caches = [e for e in p.effects if e[0] == "cache-store"]
            others = [e for e in p.effects if e[0] not in ("cache-store",)]
            worldly = [n for n in p.notes if n.startswith("world:")]
            r, m = common.check(tally, p.conds, timeout_ms, label="C01 evaluator path reachable")
            if r == "unsat":
                continue
            out["reach"] += 1
            if others or worldly:
                rows = sample_fields(prog, {n: sort for n in prog.splitters})
                for r_ in rows:
                    for k in env:
                        r_.setdefault(k, 1)
                out["witnesses"].append({"kind": "process_independence", "text": text,
                                         "rows": [{k: enc(v) for k, v in r_.items()} for r_ in rows],
                                         "why": "construction + evaluation writes persistent state or reads process state: %s %s"
                                                % ([(e[0], e[2]) for e in others][:3], worldly[:1]), "plain": ""})
            if caches:
                cached = caches[0][2]
    if cached is not None:
        # a cache keyed by ==/hash of the arguments: can two calls whose splitter values are == but print
        # differently (int 1 / float 1.0) get different assignments when evaluated on their own?
        (ra, ka, ea), (rb, kb, eb) = runs["int"], runs["float"]
        link = []
        for n in prog.splitters:
            if hasattr(ka[n], "term") and hasattr(kb[n], "term"):
                link.append(z3.ToReal(ka[n].term) == kb[n].term)
        found = None
        for pa in ra.paths:
            for pb in rb.paths:
                if isinstance(pa.outcome, Unsup) or isinstance(pb.outcome, Unsup):
                    continue
                d = relational.differ_term(pa.outcome, pb.outcome)
                if d is False:
                    continue
                cons = list(pa.conds) + list(pb.conds) + link + ([] if d is True else [d])
                r, m = common.check(tally, cons, timeout_ms, label="C01 cache conflation: ==-equal arguments of different type, "
                                    "different assignment", keep_sample=True)
                if r == "sat":
                    found = (m, pa, pb)
                    break
            if found:
                break
        if found:
            m = found[0]
            fa = {k: harness.model_value(m, v) for k, v in ka.items()}
            fb = dict(fa)
            for n in prog.splitters:
                fb[n] = float(fa[n]) if isinstance(fa[n], int) else fa[n]
            out["witnesses"].append({"kind": "call_history", "text": text,
                                     "calls": [{k: enc(v) for k, v in fa.items()}, {k: enc(v) for k, v in fb.items()}],
                                     "why": "results are memoised on ==-equal arguments (%s): a call with %r is answered from the "
                                            "entry of %r although the two hash different keys" % (
                                                cached, {n: fb[n] for n in prog.splitters}, {n: fa[n] for n in prog.splitters}),
                                     "plain": ""})
        else:
            out["status"] = "inconclusive"
            out["note"] = "a cache wrapper is installed (%s); no conflation found by the int/float query" % cached
    out["tally"] = tally
    return out


def _dispatch(a):
    if a[0] == "evaluator":
        return check_evaluator(a[1:])
    if a[0] == "chain":
        return check_chain(a[1:])
    if a[0] == "gen":
        return check_generator(a[1:])
    if a[0] == "call":
        if C11.representation_named():
            r = C11.analyse("call", a[1])
        else:
            # state kept elsewhere than in _checksum / run_experiment: use the analysis that never looks at attributes
            from vf.props import C11b
            r = C11b.analyse("H1", a[1])
            r["witnesses"] = [dict(w, kind="lifecycle_search") for w in r["witnesses"]]
        r["text"] = None
        return r
    raise ValueError(a[0])


def main(tier):
    common.setup_path()
    from vf.families import splitters as sf
    import itertools
    import random
    rng = random.Random(common.seed())
    rep = common.Reporter(PROP)
    timeout_ms = 60000 if tier == "quick" else 600000
    items = [("call", timeout_ms)]
    fam = sf.splitter_family(tier, common.seed())
    gens = fam if tier == "thorough" else fam[:60]
    evs = [x for x in fam if x[0] in ("plain", "cond", "nested")]
    for bname, prog in (evs if tier == "thorough" else evs[:12]):
        items.append(("evaluator", bname, prog, timeout_ms))
    for bname, prog in gens:
        items.append(("gen", bname, prog, timeout_ms))
    chains = [x for x in fam if x[0] in ("plain", "cond")]
    rng.shuffle(chains)
    # programs without a salt (or with the empty one) come first: there the key consists of the field values alone, which is
    # where a key that collapses to nothing / None turns the draw random
    unsalted = [x for x in chains if x[1].salt in (None, "")]
    chains = unsalted[:12] + [x for x in chains if x not in unsalted[:12]]
    for bname, prog in chains[: (200 if tier == "thorough" else 24)]:
        sorts = ["str", "int", "fp", "true", "none"]
        combos = list(itertools.product(sorts, repeat=len(prog.splitters)))
        rng.shuffle(combos)
        fixed = [tuple(["none"] * len(prog.splitters)), tuple(["str"] * len(prog.splitters))]
        for c in fixed + [c for c in combos if c not in fixed][:2]:
            items.append(("chain", bname, prog, dict(zip(prog.splitters, c)), timeout_ms))
    results = common.pmap(_dispatch, items, chunksize=2)
    total = Tally()
    texts, encoded, stubs = set(), {}, set()
    n_paths = reach = 0
    for r in results:
        total.merge(r["tally"])
        n_paths += r["paths"]
        reach += r["reach"]
        encoded.update(r["encoded"])
        stubs.update(r["stubs"])
        if r.get("text"):
            texts.add(r["text"])
        if r["status"] == "inconclusive":
            rep.inconc("%s: %s" % (r["name"], r.get("note", "?")))
        elif r["status"] == "nocompile":
            rep.inconc("family member does not compile: %s" % r.get("note"))
        for w in r["witnesses"]:
            if len(rep.violations) >= 3:
                break
            payload = dict(w)
            payload["property"] = PROP
            payload.pop("plain", None)
            if payload["kind"] == "lifecycle":
                o = common.run_replay_subprocess(payload, timeout=300)
            else:
                o = common.run_replay_subprocess(payload, timeout=600)
            payload["replay_result"] = o
            summary = "%s | %s" % (w["why"], o.get("observed", ""))
            if o.get("reproduced"):
                rep.violation(payload, summary)
            else:
                rep.inconc("witness did not reproduce: " + summary)
    coverage = {
        "programs": len(texts),
        "disagreements_checked": total.unsat + total.sat,
        "samples": total.samples[:4] or [{"note": "effect sets and entropy reads are checked structurally per path; no "
                                          "entropy source is read on the unchanged tree, so no two-world query was needed"}],
        "paths": n_paths,
        "paths_with_empty_effect_set_and_no_entropy_read": n_paths,
        "reachability_twins_passed": reach,
        "queries": total.as_dict(),
        "functions_encoded": encoded,
        "stubs_used": sorted(stubs),
        "entropy_sources_modelled": ["hash()", "id()", "set iteration order", "os.getpid/getcwd/getenv/urandom", "time.*",
                                     "random.* (deterministic branch)", "locale.*", "uuid", "hostname", "threading.get_ident",
                                     "module-level mutable state (effect tracking)"],
        "bounds": "programs of the splitter family; all field values; NOT encoded: the sly lexer/LALR driver (executed "
                  "concretely; their independence from PYTHONHASHSEED is exercised only by the multi-process replay)",
    }
    common.write_evidence(PROP, "translation_validation", coverage,
                          ["hashlib / str() / float repr are locale- and process-independent (CPython contract)",
                           "evaluator lifecycle invariant of C11"],
                          rep.wall, len(rep.violations), tier)
    print("C01: %d programs, %d items, %d paths, queries %s, wall %.1fs" % (len(texts), len(items), n_paths,
                                                                        total.as_dict(), rep.wall))
    return rep.exit_code()
