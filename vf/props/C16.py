"""C16 -- the choice function honours its random.choices-style contract.

All obligations are solver queries over symbolic executions of deterministic_choice from
source (bit-precise floats, symbolic hash position k, deterministic_proba = k/2^32):
  (a) returned index within the population, no IndexError, for weighted and unweighted calls
  (b) arguments never mutated (effect set empty on every path)
  (c) weights=w  ==  cum_weights=accumulate(w)          for all k
  (d) no weights ==  equal integer weights              for all k, per n
  (e) documented errors: wrong length / non-positive or non-finite total -> ValueError,
      both kinds of weights -> TypeError (path conditions partition exactly)
  (f) input_id None: arguments forwarded unchanged to random.choices with k=1; CPython's
      random.choices (from source, random() an arbitrary j/2^53) never selects a zero weight
"""
from __future__ import annotations

import itertools

import z3

from vf import common, harness
from vf.common import Tally
from vf.families import weights as wf
from vf.pysym import api, ops
from vf.pysym.explore import Return, Raise, Unsup, SymRaise
from vf.pysym.values import SStr, SInt, SFP, Sym, FP64, fp_const
from vf.props import C03, C12
from vf.replay import enc

PROP = "C16"
BINNING = C03.BINNING


class IdxPop:
    """A population that reports the index it is subscripted with (no forking)."""

    pysym_pytype = list     # passes isinstance(., list) / (list, tuple) tests in the analysed code

    def __init__(self, n):
        self.n = n

    def pysym_len(self, ctx):
        return self.n

    def pysym_getitem(self, ctx, idx):
        ctx.recorded.append(("index", idx))
        return ("element", idx)


def draws(p):
    """does this path consume a random draw?"""
    return any(n.startswith("stub: random.random()") for n in p.notes)


def ob_id_given(timeout_ms):
    """(g): with an id - any str, the empty one included - nothing is drawn: the result is a function of the hash position"""
    tally = Tally()
    out = base_out("id-given-no-draw")
    configs = [("unweighted", ([0, 1, 2],), {}), ("weights", ([0, 1, 2], [1, 2, 3]), {}),
               ("cum_weights", ([0, 1, 2],), {"cum_weights": [1, 3, 6]})]
    for name, a, kw in configs:
        run = C03.run_choice(*a, **kw)
        absorb(out, run)
        for p in run.paths:
            if unsup(out, p, tally, timeout_ms):
                continue
            if not draws(p):
                if out["reach"] == 0 and isinstance(p.outcome, Return):
                    r, m = common.check(tally, p.conds, timeout_ms)
                    out["reach"] += 1 if r == "sat" else 0
                continue
            r, m = common.check(tally, p.conds, timeout_ms, label="C16(g) random draw although an id is given (%s)" % name,
                                keep_sample=True)
            note_unknown(out, r)
            if r == "sat":
                uid = harness.model_value(m, SStr(z3.String("input_id")))
                out["witnesses"].append({"kind": "choice_repeat", "args": [enc(uid)] + [enc(x) for x in a],
                                         "kwargs": {k: enc(v) for k, v in kw.items()},
                                         "why": "with id %r (%s) the result is drawn at random" % (uid, name), "plain": ""})
    out["tally"] = tally
    return out


def kvar(p):
    ks = [v for t, v in p.recorded if t == "pos_k"]
    return ks[0] if ks else None


def w_choice(args, kwargs, k, expected, why, plain=""):
    return {"kind": "choice", "args": [enc(a) for a in args], "kwargs": {a: enc(b) for a, b in kwargs.items()},
            "position_k": k, "expected": expected, "why": why, "plain": plain}


def ob_range_unweighted(n, timeout_ms):
    tally = Tally()
    out = base_out("range-unweighted n=%d" % n)
    run = C03.run_choice(IdxPop(n))
    absorb(out, run)
    for p in run.paths:
        if unsup(out, p, tally, timeout_ms):
            continue
        if draws(p):
            continue        # judged by obligation (g)
        k = kvar(p)
        if isinstance(p.outcome, Raise):
            r, m = common.check(tally, p.conds, timeout_ms, label="C16(a) exception on a valid unweighted call")
            note_unknown(out, r)
            if r == "sat":
                kv = mval(m, k)
                out["witnesses"].append(w_choice(["u", list(range(n))], {}, kv, {"not_raises": True},
                                                 "unweighted choice over %d items raises %s" % (n, p.outcome.exc_name)))
            continue
        idx = [v for t, v in p.recorded if t == "index"]
        if len(idx) != 1:
            out["status"] = "inconclusive"
            out["note"] = "no single subscript on a returning path"
            continue
        it = ops.int_term(idx[0]) if isinstance(idx[0], (Sym, int)) else None
        r, m = common.check(tally, list(p.conds) + [z3.Or(it < 0, it >= n)], timeout_ms,
                            label="C16(a) floor(u*n) outside [0,n), n=%d" % n, keep_sample=True)
        note_unknown(out, r)
        if r == "sat":
            kv = mval(m, k)
            out["witnesses"].append(w_choice(["u", list(range(n))], {}, kv, {"index_in": list(range(n))},
                                             "unweighted index out of range at k=%d" % kv))
        r, m = common.check(tally, list(p.conds) + [k == 0], timeout_ms)
        if r == "sat":
            out["reach"] += 1
    out["tally"] = tally
    return out


def ob_uniform_equiv(n, timeout_ms):
    """(d): no weights == equal integer weights, all k."""
    tally = Tally()
    out = base_out("uniform-equivalence n=%d" % n)
    ra = C03.run_choice(IdxPop(n))
    rb = C03.run_choice(list(range(n)), [1] * n)
    absorb(out, ra)
    absorb(out, rb)
    pas = [p for p in ra.paths if isinstance(p.outcome, Return) and not draws(p)]
    if not pas:
        out["status"] = "inconclusive"
        out["note"] = "unweighted run has no returning path"
        out["tally"] = tally
        return out
    for pa in pas:
        ka = kvar(pa)
        idxs = [v for t, v in pa.recorded if t == "index"]
        if len(idxs) != 1 or ka is None:
            out["status"] = "inconclusive"
            out["note"] = "unweighted path without a single subscript / hash position"
            continue
        ia = ops.int_term(idxs[0])
        for pb in rb.paths:
            if unsup(out, pb, tally, timeout_ms):
                continue
            if not isinstance(pb.outcome, Return) or draws(pb):
                continue
            kb = kvar(pb)
            j = pb.outcome.value
            conds = list(pa.conds) + [z3.substitute(c, (kb, ka)) for c in pb.conds]
            r, m = common.check(tally, conds + [ia != j], timeout_ms,
                                label="C16(d) floor(u*n) != bisect over [1]*n, n=%d leaf %d" % (n, j), keep_sample=(j == 0))
            note_unknown(out, r)
            if r == "sat":
                kv = mval(m, ka)
                out["witnesses"].append({"kind": "choice_pair", "position_k": kv,
                                         "a": {"args": [enc("u"), enc(list(range(n)))], "kwargs": {}},
                                         "b": {"args": [enc("u"), enc(list(range(n))), enc([1] * n)], "kwargs": {}},
                                         "why": "no weights and equal integer weights disagree at k=%d (n=%d)" % (kv, n), "plain": ""})
        r, m = common.check(tally, list(pa.conds) + [ka == 1], timeout_ms)
        if r == "sat":
            out["reach"] += 1
    out["tally"] = tally
    return out


def ob_cum_equiv(texts, timeout_ms):
    """(c) + (a) + (b) for a weighted call."""
    tally = Tally()
    out = base_out("cum-equivalence %s" % texts)
    w = [wf.value_of(t) for t in texts]
    n = len(w)
    cum = list(itertools.accumulate(w))
    pop = ["p%d" % i for i in range(n)]
    ra = C03.run_choice(pop, w)
    rb = C03.run_choice(pop, None, cum_weights=cum)
    rc = C03.run_choice(tuple(pop), tuple(w))
    absorb(out, ra)
    absorb(out, rb)
    absorb(out, rc)
    for run, what in ((ra, "weights"), (rb, "cum_weights"), (rc, "tuples")):
        for p in run.paths:
            if unsup(out, p, tally, timeout_ms):
                continue
            if isinstance(p.outcome, Raise):
                r, m = common.check(tally, p.conds, timeout_ms, label="C16(a) exception on a valid weighted call")
                note_unknown(out, r)
                if r == "sat":
                    out["witnesses"].append(w_choice(["u", pop] + ([w] if what != "cum_weights" else []),
                                                     {"cum_weights": cum} if what == "cum_weights" else {},
                                                     mval(m, kvar(p)), {"not_raises": True},
                                                     "valid call (%s) raises %s" % (what, p.outcome.exc_name)))
            elif p.outcome.value not in pop:
                out["witnesses"].append(w_choice(["u", pop, w], {}, 0, {"index_in": list(range(n))},
                                                 "returned %r is not an element of the population" % (p.outcome.value,)))
    big = n > 16
    for pa in ra.paths:
        if big and len(out["witnesses"]) >= 2:
            break
        for other, what in ((rb, "cum_weights"), (rc, "tuple arguments")):
            others = other.paths
            if big:
                # long vectors: one query per leaf against the disjunction of all differently-valued leaves of the other form
                if not isinstance(pa.outcome, Return) or draws(pa) or kvar(pa) is None:
                    continue
                alts = []
                for pb in other.paths:
                    if isinstance(pb.outcome, Return) and not draws(pb) and kvar(pb) is not None and \
                            pb.outcome.value != pa.outcome.value:
                        alts.append(z3.And(*[z3.substitute(c, (kvar(pb), kvar(pa))) for c in pb.conds]) if pb.conds else z3.BoolVal(True))
                if not alts:
                    continue
                others = [("grouped", alts)]
            for pb in others:
                if big:
                    ka = kvar(pa)
                    conds = list(pa.conds) + [z3.Or(*pb[1])]
                    r, m = common.check(tally, conds, min(timeout_ms, 20000), _retry=False,
                                        label="C16(c) weights vs %s disagree (%d groups)" % (what, n), keep_sample=True)
                else:
                    if not (isinstance(pa.outcome, Return) and isinstance(pb.outcome, Return)):
                        continue
                    if draws(pa) or draws(pb):
                        continue
                    if pa.outcome.value == pb.outcome.value:
                        continue
                    ka, kb = kvar(pa), kvar(pb)
                    conds = list(pa.conds) + [z3.substitute(c, (kb, ka)) for c in pb.conds]
                    r, m = common.check(tally, conds, timeout_ms, label="C16(c) weights vs %s disagree" % what, keep_sample=True)
                note_unknown(out, r)
                if r == "sat":
                    kv = mval(m, ka)
                    out["witnesses"].append({"kind": "choice_pair", "position_k": kv,
                                             "a": {"args": [enc("u"), enc(pop), enc(w)], "kwargs": {}},
                                             "b": {"args": [enc("u"), enc(pop)], "kwargs": {"cum_weights": enc(cum)}}
                                             if what == "cum_weights" else
                                             {"args": [enc("u"), enc(tuple(pop)), enc(tuple(w))], "kwargs": {}},
                                             "why": "weights=%s and %s select different items at k=%d" % (
                                                 texts if len(texts) <= 12 else "%s... (%d weights)" % (texts[:6], len(texts)), what, kv),
                                             "plain": ""})
    for p in ra.paths:
        if isinstance(p.outcome, Return):
            r, m = common.check(tally, list(p.conds) + [kvar(p) == 0], timeout_ms)
            if r == "sat":
                out["reach"] += 1
    out["tally"] = tally
    return out


def ob_errors(timeout_ms):
    """(e): the documented error for each malformed argument combination."""
    tally = Tally()
    out = base_out("errors")
    cases = []
    for pop in (["a", "b"], ["only"], ("x", "y", "z"), ["a", "b", "c", "d", "e"]):
        n = len(pop)
        tag = "n=%d %s" % (n, type(pop).__name__)
        ws = lambda v: type(pop)([v] * n) if isinstance(pop, tuple) else [v] * n
        cases += [
            ("wrong length (short) " + tag, [pop, [1.0] * (n - 1) if n > 1 else []], {}, "ValueError"),
            ("wrong length (long) " + tag, [pop, [1.0] * (n + 1)], {}, "ValueError"),
            ("wrong length cum " + tag, [pop], {"cum_weights": [float(i + 1) for i in range(n + 1)]}, "ValueError"),
            ("both kinds " + tag, [pop, [1.0] * n], {"cum_weights": [float(i + 1) for i in range(n)]}, "TypeError"),
            ("zero total " + tag, [pop, [0.0] * n], {}, "ValueError"),
            ("zero int total " + tag, [pop, [0] * n], {}, "ValueError"),
            ("negative total " + tag, [pop, [1.0] * (n - 1) + [-2.0 * n]], {}, "ValueError"),
            ("infinite total " + tag, [pop, [1.0] * (n - 1) + [float("inf")]], {}, "ValueError"),
            ("nan total " + tag, [pop, [1.0] * (n - 1) + [float("nan")]], {}, "ValueError"),
            ("non-positive cum total " + tag, [pop], {"cum_weights": [float(i - n) for i in range(n)]}, "ValueError"),
            ("infinite cum total " + tag, [pop], {"cum_weights": [float(i) for i in range(n - 1)] + [float("inf")]}, "ValueError"),
            # wrong in two ways: random.choices checks 'both kinds' first, then the length, then the total
            ("both kinds + wrong length " + tag, [pop, [1.0] * (n + 1)], {"cum_weights": [1.0] * (n + 2)}, "TypeError"),
            ("both kinds + zero total " + tag, [pop, [0.0] * n], {"cum_weights": [0.0] * n}, "TypeError"),
            ("wrong length + zero total " + tag, [pop, [0.0] * (n + 1)], {}, "ValueError"),
        ]
    for name, args, kwargs, exc in cases:
        uid = SStr(z3.String("input_id"))

        def setup(it):
            it.call_overrides["pyab_experiment.binning.binning:deterministic_proba"] = C12.proba_recorder
        run = api.run(api.call_module_function(BINNING, "deterministic_choice", [uid] + args, kwargs),
                      opts={"float_mode": "fp", "prune": False}, setup=setup)
        absorb(out, run)
        for p in run.paths:
            if unsup(out, p, tally, timeout_ms):
                continue
            if isinstance(p.outcome, Raise) and p.outcome.exc_name == exc:
                r, m = common.check(tally, p.conds, timeout_ms)
                if r == "sat":
                    out["reach"] += 1
                continue
            r, m = common.check(tally, p.conds, timeout_ms, label="C16(e) %s does not raise %s" % (name, exc), keep_sample=True)
            note_unknown(out, r)
            if r == "sat":
                k = kvar(p)
                out["witnesses"].append(w_choice(["u"] + args, kwargs, mval(m, k) if k is not None else None,
                                                 {"raises": [exc]}, "%s: expected %s, got %r" % (name, exc, p.outcome)))
    # symbolic totals: ValueError exactly when total <= 0 or not finite (two symbolic binary64 weights);
    # the search below the checks is cut (bisect stubbed) -- it is not part of this obligation
    pop = ["a", "b"]
    w0, w1 = SFP(z3.FP("w0", FP64)), SFP(z3.FP("w1", FP64))
    uid = SStr(z3.String("input_id"))
    # population of one, one symbolic weight
    def setup1(it):
        it.call_overrides["pyab_experiment.binning.binning:deterministic_proba"] = C12.proba_recorder
        it.call_overrides["bisect.bisect_right"] = lambda ctx, interp, a, k: 0
    run1 = api.run(api.call_module_function(BINNING, "deterministic_choice", [uid, ["only"], [w0]], {}),
                   opts={"float_mode": "fp", "prune": False}, setup=setup1)
    absorb(out, run1)
    total1 = z3.fpAdd(z3.RNE(), w0.term, fp_const(0.0))
    bad1 = z3.Or(z3.fpLEQ(total1, fp_const(0.0)), z3.fpIsNaN(total1), z3.fpIsInf(total1))
    for p in run1.paths:
        if unsup(out, p, tally, timeout_ms):
            continue
        is_ve = isinstance(p.outcome, Raise) and p.outcome.exc_name == "ValueError"
        r, m = common.check(tally, list(p.conds) + [z3.Not(bad1) if is_ve else bad1], timeout_ms,
                            label="C16(e) ValueError <=> total <= 0 or non-finite (one symbolic weight, population of one)")
        note_unknown(out, r)
        if r == "sat":
            wv = [harness.fp_model_value(m.eval(w0.term, model_completion=True))]
            out["witnesses"].append(w_choice(["u", ["only"], wv], {}, 0,
                                             {"not_raises": True} if is_ve else {"raises": ["ValueError"]},
                                             "population of one, weights %r: %s" % (wv, "ValueError although the total is positive "
                                                                                    "and finite" if is_ve else "no ValueError although the total is not positive/finite")))

    def setup2(it):
        it.call_overrides["pyab_experiment.binning.binning:deterministic_proba"] = C12.proba_recorder
        it.call_overrides["bisect.bisect_right"] = lambda ctx, interp, a, k: 0
    run = api.run(api.call_module_function(BINNING, "deterministic_choice", [uid, pop, [w0, w1]], {}),
                  opts={"float_mode": "fp", "prune": False}, setup=setup2)  # population of two
    absorb(out, run)
    total = z3.fpAdd(z3.RNE(), z3.fpAdd(z3.RNE(), w0.term, w1.term), fp_const(0.0))
    bad = z3.Or(z3.fpLEQ(total, fp_const(0.0)), z3.fpIsNaN(total), z3.fpIsInf(total))
    for p in run.paths:
        if unsup(out, p, tally, timeout_ms):
            continue
        is_ve = isinstance(p.outcome, Raise) and p.outcome.exc_name == "ValueError"
        q = list(p.conds) + [z3.Not(bad) if is_ve else bad]
        r, m = common.check(tally, q, timeout_ms, label="C16(e) ValueError <=> total <= 0 or non-finite (symbolic weights)",
                            keep_sample=True)
        note_unknown(out, r)
        if r == "sat":
            wv = [harness.fp_model_value(m.eval(w0.term, model_completion=True)),
                  harness.fp_model_value(m.eval(w1.term, model_completion=True))]
            out["witnesses"].append(w_choice(["u", pop, wv], {}, 0,
                                             {"not_raises": True} if is_ve else {"raises": ["ValueError"]},
                                             "weights %r: %s" % (wv, "ValueError although the total is positive and finite"
                                                                 if is_ve else "no ValueError although the total is not positive/finite")))
        r, m = common.check(tally, list(p.conds), timeout_ms)
        if r == "sat":
            out["reach"] += 1
    out["tally"] = tally
    return out


def ob_mutation(timeout_ms):
    """(b): no path of any call form writes to its arguments or to anything outliving the call."""
    tally = Tally()
    out = base_out("immutability")
    pop = ["a", "b", "c"]
    forms = [([pop, [1.0, 2.0, 3.0]], {}), ([pop], {}), ([pop], {"cum_weights": [1.0, 3.0, 6.0]}),
             ([pop, [1, 2, 3]], {}), ([pop, [1.0, 2.0]], {}), ([pop, [0.0, 0.0, 0.0]], {}),
             ([pop, [1.0, 1.0, 1.0]], {"cum_weights": [1.0, 2.0, 3.0]})]
    for args, kwargs in forms:
        uid = SStr(z3.String("input_id"))

        def setup(it):
            it.call_overrides["pyab_experiment.binning.binning:deterministic_proba"] = C12.proba_recorder
        run = api.run(api.call_module_function(BINNING, "deterministic_choice", [uid] + args, kwargs),
                      opts={"float_mode": "fp", "prune": False}, setup=setup)
        absorb(out, run)
        for p in run.paths:
            if unsup(out, p, tally, timeout_ms):
                continue
            if not p.effects:
                continue
            r, m = common.check(tally, p.conds, timeout_ms, label="C16(b) path with a write to an argument is feasible",
                                keep_sample=True)
            note_unknown(out, r)
            if r == "sat":
                out["witnesses"].append({"kind": "choice_mutation", "args": [enc("u")] + [enc(a) for a in args],
                                         "kwargs": {a: enc(b) for a, b in kwargs.items()},
                                         "why": "deterministic_choice modifies its arguments (%s)" % (
                                             [(e[0], e[2]) for e in p.effects][:3],), "plain": ""})
        out["reach"] += 1
    # symbolic weights: a write that happens only for particular values (e.g. a total close to 1) must not hide;
    # the search below the checks is cut (bisect stubbed): it does not write
    for form in ("weights", "cum_weights"):
        for n in (1, 2, 3):
            orig = [SFP(z3.FP("m_%s_%d" % (form, i), FP64)) for i in range(n)]
            uid = SStr(z3.String("input_id"))
            pop_n = pop[:n]

            def setup_s(it):
                it.call_overrides["pyab_experiment.binning.binning:deterministic_proba"] = C12.proba_recorder
                it.call_overrides["bisect.bisect_right"] = lambda ctx, interp, a, k: 0
            def entry_s(it, form=form, orig=orig, pop_n=pop_n, uid=uid):
                # a fresh (non-local) argument list per path: the code under analysis may write into it
                syms = list(orig)
                env_ = it.import_module(BINNING)
                a_ = [uid, list(pop_n)] + ([syms] if form == "weights" else [])
                k_ = {} if form == "weights" else {"cum_weights": syms}
                return it.call(env_.vars["deterministic_choice"], a_, k_)
            run = api.run(entry_s, opts={"float_mode": "fp", "prune": False}, setup=setup_s)
            syms = orig
            absorb(out, run)
            for p in run.paths:
                if unsup(out, p, tally, timeout_ms):
                    continue
                if not p.effects:
                    continue
                r, m = common.check(tally, p.conds, timeout_ms,
                                    label="C16(b) symbolic %s (n=%d): path with a write to an argument is feasible" % (form, n),
                                    keep_sample=True)
                note_unknown(out, r)
                if r == "sat":
                    vals = [harness.fp_model_value(m.eval(sv.term, model_completion=True)) for sv in syms]
                    out["witnesses"].append({"kind": "choice_mutation", "args": [enc("u"), enc(pop_n)] + ([enc(vals)] if form == "weights" else []),
                                             "kwargs": {} if form == "weights" else {"cum_weights": enc(vals)},
                                             "why": "deterministic_choice modifies its %s argument for values %r (%s)" % (
                                                 form, vals, [(e[0], e[2]) for e in p.effects][:2]), "plain": ""})
                    break
    out["tally"] = tally
    return out


def ob_random(timeout_ms):
    """(f): input_id None."""
    tally = Tally()
    out = base_out("random branch")
    pop = ["a", "b", "c", "d"]
    w = [1.0, 0.0, 2.0, 0.0]
    rec = []

    def setup(it):
        def choices_rec(ctx, interp, args, kwargs):
            ctx.recorded.append(("choices", (args, kwargs)))
            return ["sentinel"]
        it.call_overrides["random.Random.choices"] = choices_rec
        from vf.pysym import models
        import random as _r
        it.native_override = True
    # forwarding: intercept the call to random.choices
    from vf.pysym import models
    import random as _r
    saved = models.native_table().get(_r.choices)

    def fwd(ctx, interp, args, kwargs):
        ctx.recorded.append(("choices", (list(args), dict(kwargs))))
        return ["sentinel"]
    models.native_table()[_r.choices] = fwd
    try:
        for args, kwargs in (([pop, w], {}), ([pop], {}), ([pop], {"cum_weights": [1.0, 1.0, 3.0, 3.0]})):
            run = api.run(api.call_module_function(BINNING, "deterministic_choice", [None] + args, kwargs),
                          opts={"float_mode": "fp", "prune": False})
            absorb(out, run)
            for p in run.paths:
                calls = [v for t, v in p.recorded if t == "choices"]
                ok = (isinstance(p.outcome, Return) and p.outcome.value == "sentinel" and len(calls) == 1)
                if ok:
                    a, k = calls[0]
                    full = dict(zip(["population", "weights"], a))
                    full.update(k)
                    ok = (full.get("population") is args[0] and
                          full.get("weights") is (args[1] if len(args) > 1 else None) and
                          full.get("cum_weights") is kwargs.get("cum_weights") and full.get("k", 1) == 1 and
                          not p.effects)
                if not ok:
                    out["witnesses"].append({"kind": "random_forward", "why": "input_id=None does not forward its arguments "
                                             "unchanged to random.choices(k=1): %r / %r" % (p.outcome, calls), "plain": ""})
                else:
                    out["reach"] += 1
    finally:
        models.native_table()[_r.choices] = saved
    # CPython's routine never returns a zero-weight item
    run = api.run(api.call_module_function(BINNING, "deterministic_choice", [None, pop, w], {}),
                  opts={"float_mode": "fp", "prune": False})
    absorb(out, run)
    for p in run.paths:
        if unsup(out, p, tally, timeout_ms):
            continue
        if isinstance(p.outcome, Return) and p.outcome.value in ("b", "d"):
            r, m = common.check(tally, p.conds, timeout_ms, label="C16(f) zero-weight item drawn", keep_sample=True)
            note_unknown(out, r)
            if r == "sat":
                out["witnesses"].append({"kind": "random_zero", "why": "random branch can return zero-weight item %r"
                                         % p.outcome.value, "plain": ""})
        elif isinstance(p.outcome, Return):
            r, m = common.check(tally, p.conds, timeout_ms)
            if r == "sat":
                out["reach"] += 1
        else:
            r, m = common.check(tally, p.conds, timeout_ms, label="C16(f) random branch raises")
            note_unknown(out, r)
            if r == "sat":
                out["witnesses"].append({"kind": "random_zero", "why": "random branch raises %r" % (p.outcome,), "plain": ""})
    out["tally"] = tally
    return out


# ---- small helpers ------------------------------------------------------------------
def base_out(name):
    return {"status": "ok", "witnesses": [], "paths": 0, "reach": 0, "encoded": {}, "stubs": [], "name": name}


def absorb(out, run):
    out["paths"] += len(run.paths)
    out["encoded"].update(run.encoded_digest())
    out["stubs"] = sorted(set(out["stubs"]) | set(run.notes))


def unsup(out, p, tally, timeout_ms):
    if isinstance(p.outcome, Unsup):
        r, m = common.check(tally, p.conds, timeout_ms)
        if r != "unsat":
            out["status"] = "inconclusive"
            out["note"] = "unsupported on feasible path: " + p.outcome.reason
        return True
    return False


def note_unknown(out, r):
    if r == "unknown":
        out["status"] = "inconclusive"
        out["note"] = "solver unknown in " + out["name"]


def mval(m, k):
    if k is None:
        return None
    return m.eval(k, model_completion=True).as_long()


def _dispatch(a):
    common.setup_path()
    kind = a[0]
    if kind == "range":
        return ob_range_unweighted(a[1], a[2])
    if kind == "uniform":
        return ob_uniform_equiv(a[1], a[2])
    if kind == "cum":
        return ob_cum_equiv(a[1], a[2])
    if kind == "errors":
        return ob_errors(a[1])
    if kind == "mutation":
        return ob_mutation(a[1])
    if kind == "random":
        return ob_random(a[1])
    if kind == "idgiven":
        return ob_id_given(a[1])
    raise ValueError(kind)


def main(tier):
    common.setup_path()
    rep = common.Reporter(PROP)
    timeout_ms = 60000 if tier == "quick" else 600000
    items = [("errors", timeout_ms), ("mutation", timeout_ms), ("random", timeout_ms), ("idgiven", timeout_ms)]
    ns_range = [1, 2, 3, 10, 64, 2 ** 20 + 1] if tier == "quick" else \
        list(range(1, 65)) + [100, 1000, 65535, 65536, 2 ** 20, 2 ** 20 + 1, 10 ** 6]
    ns_uni = [1, 2, 3, 7] if tier == "quick" else list(range(1, 65))
    from vf.props import sizes
    derived = sizes.sizes_around()          # group-count thresholds read off the implementation (none on the pinned tree)
    ns_range = sorted(set(ns_range) | set(derived))
    ns_uni = sorted(set(ns_uni) | {d for d in derived if d <= 24})
    for n in ns_range:
        items.append(("range", n, timeout_ms))
    for n in ns_uni:
        items.append(("uniform", n, timeout_ms))
    vecs = [["1", "2", "3"], ["0.1", "0.2", "0.3", "0.4"], ["1", "0", "1"], ["0", "0", "5"], ["3.4", "5", "3"], ["7"]]
    if tier == "thorough":
        vecs += [v for v in wf.family("quick", common.seed()) if len(v) <= 8][:40]
    vecs += [[str(i % 7 + 1) for i in range(d)] for d in derived if d <= 256 and d > 1]
    for v in vecs:
        items.append(("cum", v, timeout_ms))
    items.sort(key=lambda it: -(it[1] if it[0] == "uniform" else 0))
    results = common.pmap(_dispatch, items, chunksize=1)
    total = Tally()
    encoded, stubs = {}, set()
    n_paths = reach = 0
    for r in results:
        total.merge(r["tally"])
        n_paths += r["paths"]
        reach += r["reach"]
        encoded.update(r["encoded"])
        stubs.update(r["stubs"])
        if r["status"] == "inconclusive":
            rep.inconc("%s: %s" % (r["name"], r.get("note", "?")))
        for w in r["witnesses"]:
            if len(rep.violations) >= 5:
                break
            payload = dict(w)
            payload["property"] = PROP
            plain = payload.pop("plain", "")
            o = common.run_replay_subprocess(payload)
            payload["replay_result"] = o
            summary = "%s | %s" % (w["why"], o.get("observed", ""))
            if o.get("reproduced"):
                rep.violation(payload, summary)
            else:
                rep.inconc("witness did not reproduce: " + summary)
    coverage = {
        "programs": len(items),
        "disagreements_checked": total.unsat + total.sat,
        "samples": total.samples[:5] or [{"note": "none"}],
        "obligation_groups": sorted({r["name"].split(" ")[0] for r in results}),
        "paths": n_paths,
        "reachability_twins_passed": reach,
        "queries": total.as_dict(),
        "functions_encoded": encoded,
        "stubs_used": sorted(stubs) + ["deterministic_proba replaced by k/2^32 for a fresh 32-bit k",
                                       "bisect stubbed in the symbolic-weights error obligation only (search is not its subject)"],
        "bounds": "hash position: all 2^32 values, bit-precise; unweighted n in %s; uniform equivalence n in %s; weighted "
                  "vectors concrete (%d); error partition with two symbolic binary64 weights; populations are lists/tuples of "
                  "distinct strings" % (ns_range if len(ns_range) < 12 else "1..64 + large", ns_uni if len(ns_uni) < 12 else "1..64", len(vecs)),
    }
    common.write_evidence(PROP, "translation_validation", coverage,
                          ["random.choices interpreted from CPython's random.py; random() ranges over j/2^53"],
                          rep.wall, len(rep.violations), tier)
    print("C16: %d obligation groups, %d paths, queries %s, wall %.1fs" % (len(items), n_paths, total.as_dict(), rep.wall))
    return rep.exit_code()
