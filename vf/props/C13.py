"""C13 -- source text is inert data: literals cannot inject code.

The real PythonCodeGen.generate() is executed symbolically on live ASTs in which ONE string
(salt, string term on either side, tuple member, nested tuple member, group definition) is
a symbolic string ranging over everything a DSL string literal can contain.  The returned
text is decomposed; every RAW (hand-quoted or spliced) occurrence of the symbolic string is
put to the solver: is quote + s + quote always exactly one Python string token?  Occurrences
through repr()/str(list) are faithful by CPython's contract.  Both layouts.
Validation: an adversarial corpus through the real pipeline (constant-masked AST comparison).
"""
from __future__ import annotations

import ast
import contextlib
import io

from vf import common, render
from vf.common import Tally
from vf.families import literals as lf
from vf.replay import enc

PROP = "C13"


def masked_dump(code):
    tree = ast.parse(code)
    for node in ast.walk(tree):
        if isinstance(node, ast.Constant):
            node.value = type(node.value).__name__ if not isinstance(node.value, (int, float, str)) else (
                "S" if isinstance(node.value, str) else 0)
    return ast.dump(tree)


def analyse(item):
    position, expose = item
    common.setup_path()
    tally = Tally()
    res = render.analyse_string_position(position, expose, tally)
    res["tally"] = tally
    return res


def corpus_item(item):
    position, s = item
    common.setup_path()
    from pyab_experiment.utils.wraper_functions import generate_code
    q = lf.quote(s)
    if q is None:
        return None
    text = lf.text_for(position, q)
    harmless = lf.text_for(position, '"h"')
    out = {"position": position, "literal": s, "text": text, "problem": None}
    for expose in (False, True):
        try:
            with contextlib.redirect_stdout(io.StringIO()), contextlib.redirect_stderr(io.StringIO()):
                a = generate_code(text, expose)
                b = generate_code(harmless, expose)
            if masked_dump(a) != masked_dump(b):
                out["problem"] = "the generated code's structure depends on the literal (layout expose=%s)" % expose
        except Exception as e:
            out["problem"] = "%s: %s" % (type(e).__name__, str(e)[:120])
        if out["problem"]:
            break
    return out


def main(tier):
    common.setup_path()
    rep = common.Reporter(PROP)
    items = [(p, e) for p in render.POSITIONS for e in (False, True)]
    results = common.pmap(analyse, items, chunksize=1)
    total = Tally()
    encoded, stubs = {}, set()
    witnesses = []
    occ = {}
    for r in results:
        total.merge(r["tally"])
        encoded.update(r["encoded"])
        stubs.update(r["stubs"])
        occ["%s/%s" % (r["position"], "exposed" if r["expose"] else "nested")] = r["occurrences"]
        if r["status"] == "inconclusive":
            rep.inconc("%s: %s" % (r["position"], r.get("note", "solver unknown")))
        expanded = []
        for kind, lit, desc in r["findings"]:
            if kind == "inject-search":
                expanded += [("inject", c, desc, "search:%s:%s:%s" % (r["position"], r["expose"], desc[:30])) for c in lit]
            else:
                expanded.append((kind, lit, desc, None))
        for kind, lit, desc, group in expanded:
            if kind in ("inject", "raise", "dropped"):
                q = lf.quote(lit) if isinstance(lit, str) else None
                if q is None:
                    if not group:
                        rep.inconc("witness %r for %s not expressible as a DSL literal" % (lit, r["position"]))
                    continue
                witnesses.append({"kind": "inert", "text": lf.text_for(r["position"], q),
                                  "harmless": lf.text_for(r["position"], '"h"'), "expose": r["expose"],
                                  "why": "%s at position %s (literal %r)" % (desc, r["position"], lit)})
                if group:
                    witnesses[-1]["search_group"] = group
    corpus = lf.ADVERSARIAL + (lf.STRINGS if tier == "thorough" else lf.STRINGS[:12])
    citems = [(p, s) for p in render.POSITIONS for s in corpus]
    cres = [c for c in common.pmap(corpus_item, citems, chunksize=8) if c is not None]
    for c in cres:
        if c["problem"]:
            witnesses.append({"kind": "inert", "text": c["text"], "harmless": lf.text_for(c["position"], '"h"'),
                              "expose": False, "why": "corpus literal %r at %s: %s" % (c["literal"], c["position"], c["problem"])})
    seen = set()
    groups = {}
    for w in witnesses:
        if len(rep.violations) >= 5:
            break
        g = w.get("search_group")
        key = w["why"][:60] + str(w.get("expose"))
        if g:
            if groups.get(g) == "found":
                continue
            groups.setdefault(g, "open")
        if key in seen:
            continue
        seen.add(key)
        payload = dict(w)
        payload["property"] = PROP
        payload.pop("search_group", None)
        o = common.run_replay_subprocess(payload)
        payload["replay_result"] = o
        summary = "%s | %s" % (w["why"], o.get("observed", ""))
        if o.get("reproduced"):
            rep.violation(payload, summary)
            if g:
                groups[g] = "found"
        elif not g:
            rep.inconc("witness did not reproduce: " + summary)
    for g, st in groups.items():
        if st != "found" and len(rep.violations) < 5:
            rep.inconc("%s: none of the candidate payloads changes the structure of the generated code" % g)
    coverage = {
        "programs": len(items),
        "disagreements_checked": total.unsat + total.sat,
        "samples": total.samples[:3] or [{"note": "every occurrence of the symbolic literal in the generated text goes "
                                          "through repr(): no raw occurrence, hence no solver query was needed",
                                          "occurrences": occ}],
        "positions": render.POSITIONS,
        "occurrences_of_the_symbolic_literal": occ,
        "corpus_literals_validated": len(cres),
        "traces_validated_against_impl": len(cres),
        "queries": total.as_dict(),
        "functions_encoded": encoded,
        "stubs_used": sorted(stubs),
        "bounds": "one symbolic string per run, any length, any characters a DSL string literal can contain (no newline, not "
                  "both quote kinds); ASTs built without pydantic validation; identifiers and numbers are rendered from "
                  "their own token languages (see C07 for reserved words)",
    }
    common.write_evidence(PROP, "translation_validation", coverage,
                          ["repr(str) / str(list) / str(tuple) of str, int, finite float are single Python expressions that "
                           "evaluate back to the same value (CPython contract)",
                           "structural model of Python single-quoted string tokens (DESIGN.md Appendix D)"],
                          rep.wall, len(rep.violations), tier)
    print("C13: %d position x layout runs, corpus %d, queries %s, wall %.1fs" % (len(items), len(cres), total.as_dict(), rep.wall))
    return rep.exit_code()
