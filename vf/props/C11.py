"""C11 -- evaluator lifecycle: recompile is atomic, repeatable and instance-local.

One inductive step: ExperimentEvaluator.recompile / __init__ / __call__ are executed from
source (pysym) from an ARBITRARY pre-state satisfying the invariant
    I:  _checksum = md5hex(t_old)  and  run_experiment = the function compiled from t_old
with a symbolic new text and an abstract compile step (parse/generate/compile/exec collapse
into: Ok(function) | parse returns None | lexer/parser raises | generated code is rejected by
compile()).  After the step: Ok => state = (md5hex(t_new), new function); failure => raises AND
state unchanged (so the same call raises again: I is preserved); t_new = t_old => no-op; no
write outside self.  MD5 is assumed collision-free on source texts.
"""
from __future__ import annotations

import z3

from vf import common, harness
from vf.common import Tally
from vf.pysym import api, ops
from vf.pysym.explore import Return, Raise, Unsup, SymRaise
from vf.pysym.interp import PyInstance, PyClass, PyFunc, ModuleEnv
from vf.pysym.models import digest_fn
from vf.pysym.values import SStr, SHex, Sym

PROP = "C11"
EVAL = harness.EVAL_MODULE
OUTCOMES = ["ok", "parse_none", "parse_raises", "codegen_syntax_error"]
NEW_TEXT = "def fn_new(**kwargs):\n    return ('new-function', kwargs)\n"
BAD_TEXT = "def fn_new(a, a, **kwargs):\n    return 1\n"


class OldFn:
    """the function installed by the last accepted text (opaque)"""

    def __init__(self, name):
        self.name = name

    def pysym_call(self, ctx, interp, args, kwargs):
        return (self.name, dict(kwargs))

    def pysym_eq(self, ctx, other):
        return self is other


class FakeAST:
    def __init__(self, id_):
        self.id = id_

    def pysym_getattr(self, ctx, interp, name):
        if name == "id":
            return self.id
        raise SymRaise(AttributeError(name))


def setup_stubs(it):
    def parse_stub(ctx, interp, args, kwargs):
        k = ctx.choose(len(OUTCOMES), label="compile_outcome")
        ctx.recorded.append(("outcome", OUTCOMES[k]))
        ctx.recorded.append(("parsed_text", args[0] if args else kwargs.get("text")))
        if OUTCOMES[k] == "parse_none":
            return None
        if OUTCOMES[k] == "parse_raises":
            raise SymRaise(RuntimeError("lexer/parser rejected the text"))
        return FakeAST("fn_new")

    def gen_init(ctx, interp, args, kwargs):
        self_ = args[0]
        interp.setattr(self_, "_verif_ast", args[1] if len(args) > 1 else kwargs.get("experiment_ast"))
        return None

    def gen_generate(ctx, interp, args, kwargs):
        oc = [v for t, v in ctx.recorded if t == "outcome"][-1]
        return BAD_TEXT if oc == "codegen_syntax_error" else NEW_TEXT
    it.call_overrides["parse_source"] = parse_stub
    it.call_overrides["PythonCodeGen.__init__"] = gen_init
    it.call_overrides["PythonCodeGen.generate"] = gen_generate


_DIGEST = {}
T_PROBE = z3.String("t_probe")


class Digest:
    """The checksum recompile() stores, as a term over the text: D(t) = T[t_probe := t], where T is what a symbolic run of
    the constructor leaves in _checksum.  `args(t)` are the arguments of the digest applications inside T (the
    collision-freeness assumption is made on THOSE: h(a) = h(b) => a = b); `preprocessed` says that the text goes
    through some other function before it is hashed (then D may be non-injective even with a perfect hash)."""

    def __init__(self, term=None, cls=SHex):
        if term is None:
            term = digest_fn("md5")(T_PROBE)
        self.term = term
        self.cls = cls
        self.apps = []
        seen = set()

        def walk(t):
            if t.get_id() in seen:
                return
            seen.add(t.get_id())
            if z3.is_app(t) and t.decl().kind() == z3.Z3_OP_UNINTERPRETED and t.decl().name().endswith("_utf8") \
                    and t.num_args() == 1:
                self.apps.append(t)
                return
            for c in t.children():
                walk(c)
        walk(term)
        self.preprocessed = not (len(self.apps) == 1 and self.apps[0].arg(0).eq(T_PROBE))

    def __call__(self, t):
        return z3.substitute(self.term, (T_PROBE, t))

    def value(self, t):
        return self.cls(self(t))

    def hashed(self, t):
        return [z3.substitute(a.arg(0), (T_PROBE, t)) for a in self.apps]

    def collision_free(self, t1, t2):
        """equal checksums => equal hashed byte strings"""
        if not self.apps:
            return z3.BoolVal(True)
        same_args = z3.And(*[a == b for a, b in zip(self.hashed(t1), self.hashed(t2))])
        return z3.Implies(self(t1) == self(t2), same_args)

    def describe(self):
        return str(self.term)[:120]


def _ids(t, acc=None):
    acc = set() if acc is None else acc
    if t.get_id() not in acc:
        acc.add(t.get_id())
        for c in t.children():
            _ids(c, acc)
    return acc


def representation_named():
    """does a freshly built evaluator keep its state where the step analysis below expects it: a symbolic checksum in
    `_checksum` and the generated function in the instance attribute `run_experiment`?"""
    if "named" in _DIGEST:
        return _DIGEST["named"]

    def entry(it):
        env = it.import_module(EVAL)
        cls = env.vars["ExperimentEvaluator"]
        inst = it.call(cls, [SStr(T_PROBE)], {})
        return dict(inst.attrs)
    ok = False
    try:
        run = api.run(entry, opts={"float_mode": "real", "prune": True}, setup=setup_stubs)
        for p in run.paths:
            if isinstance(p.outcome, Return):
                a = p.outcome.value
                ok = isinstance(a.get("_checksum"), Sym) and isinstance(a.get("run_experiment"), PyFunc)
                break
    except Exception:
        ok = False
    _DIGEST["named"] = ok
    return ok


def discover_digest():
    """Which checksum does recompile() store?  Probe: construct an evaluator from a symbolic text with a successful
    compile and read the stored term (so a change of the checksum algorithm is not mistaken for a defect)."""
    if "fn" in _DIGEST:
        return _DIGEST["fn"]
    d = Digest()

    def entry(it):
        env = it.import_module(EVAL)
        cls = env.vars["ExperimentEvaluator"]
        inst = it.call(cls, [SStr(T_PROBE)], {})
        return inst.attrs.get("_checksum")
    try:
        run = api.run(entry, opts={"float_mode": "real", "prune": True}, setup=setup_stubs)
        for p in run.paths:
            if isinstance(p.outcome, Return) and isinstance(p.outcome.value, Sym) and \
                    T_PROBE.get_id() in _ids(p.outcome.value.term):
                d = Digest(p.outcome.value.term, type(p.outcome.value))
                break
    except Exception:
        pass
    _DIGEST["fn"] = d
    return d


def arbitrary_like(name, sample):
    """an arbitrary value of the kind `sample` has (pre-state of an attribute the invariant says nothing about)"""
    from vf.pysym.values import SOpaque, Obj, SInt, SBool
    if isinstance(sample, (SStr, str)):
        return SStr(z3.String("pre_" + name))
    if isinstance(sample, bool):
        return SBool(z3.Bool("pre_" + name))
    if isinstance(sample, int):
        return SInt(z3.Int("pre_" + name))
    return SOpaque(z3.Const("pre_" + name, Obj))


def step(kind, pre_extras=None):
    """entry(interp) -> snapshot tuple"""
    def entry(it):
        env = it.import_module(EVAL)
        cls = env.vars["ExperimentEvaluator"]
        t_old = z3.String("t_old")
        t_new = SStr(z3.String("t_new"))
        md5 = discover_digest()
        other = PyInstance(cls)
        other.attrs["_checksum"] = md5.value(z3.String("t_other"))
        other_fn = OldFn("other-function")
        other.attrs["run_experiment"] = other_fn
        class_before = dict(cls.ns)
        mod_before = dict(env.vars)
        it.ctx.begin_call()
        if kind == "recompile":
            inst = PyInstance(cls)
            old_fn = OldFn("old-function")
            inst.attrs["_checksum"] = md5.value(t_old)
            inst.attrs["run_experiment"] = old_fn
            for n_, s_ in (pre_extras or {}).items():
                inst.attrs[n_] = arbitrary_like(n_, s_)
            before = dict(inst.attrs)
            try:
                it.call(it.getattr(inst, "recompile"), [t_new], {})
                res = ("return", None)
            except SymRaise as e:
                res = ("raise", getattr(getattr(e.exc, "pyclass", None), "name", type(e.exc).__name__))
            after = dict(inst.attrs)
        elif kind == "init":
            before = {}
            try:
                inst = it.call(cls, [t_new], {})
                res = ("return", inst)
                after = dict(inst.attrs)
            except SymRaise as e:
                res = ("raise", getattr(getattr(e.exc, "pyclass", None), "name", type(e.exc).__name__))
                after = {}
        else:  # call
            inst = PyInstance(cls)
            old_fn = OldFn("old-function")
            inst.attrs["_checksum"] = md5.value(t_old)
            inst.attrs["run_experiment"] = old_fn
            for n_, s_ in (pre_extras or {}).items():
                inst.attrs[n_] = arbitrary_like(n_, s_)
            before = dict(inst.attrs)
            x = SStr(z3.String("arg_x"))
            try:
                v = it.call(inst, [], {"uid": x, "extra": 3})
                res = ("return", v)
            except SymRaise as e:
                res = ("raise", type(e.exc).__name__)
            after = dict(inst.attrs)
        class_changed = sorted(k for k in set(cls.ns) | set(class_before) if cls.ns.get(k) is not class_before.get(k))
        mod_changed = sorted(k for k in set(env.vars) | set(mod_before) if env.vars.get(k) is not mod_before.get(k))
        other_changed = (other.attrs.get("run_experiment") is not other_fn) or \
            not isinstance(other.attrs.get("_checksum"), Sym)
        return {"res": res, "before": before, "after": after, "inst": inst if kind != "init" or res[0] == "return" else None,
                "class_changed": class_changed,
                "module_changed": mod_changed, "other_changed": other_changed, "t_old": t_old, "t_new": t_new.term}
    return entry


def checksum_term(v):
    if isinstance(v, Sym):
        return v.term
    return None


def analyse(kind, timeout_ms, pre_extras=None):
    common.setup_path()
    tally = Tally()
    out = {"status": "ok", "witnesses": [], "paths": 0, "reach": 0, "encoded": {}, "stubs": [], "name": kind}
    run = api.run(step(kind, pre_extras), opts={"float_mode": "real", "prune": True}, setup=setup_stubs)
    out["paths"] = len(run.paths)
    out["encoded"] = run.encoded_digest()
    out["stubs"] = run.notes
    md5 = discover_digest()
    for p in run.paths:
        if isinstance(p.outcome, Unsup):
            r, m = common.check(tally, p.conds, timeout_ms)
            if r != "unsat":
                out["status"] = "inconclusive"
                out["note"] = "unsupported on feasible path: " + p.outcome.reason
            continue
        if isinstance(p.outcome, Raise):
            out["status"] = "inconclusive"
            out["note"] = "harness entry raised %s" % p.outcome.exc_name
            continue
        snap = p.outcome.value
        res = snap["res"]
        t_old, t_new = snap["t_old"], snap["t_new"]
        injective = md5.collision_free(t_old, t_new)
        conds = list(p.conds) + [injective]
        r, m = common.check(tally, conds, timeout_ms, label="C11 path reachable (%s)" % kind)
        if r == "unsat":
            continue
        if r == "unknown":
            out["status"] = "inconclusive"
            out["note"] = "unknown on reachability"
            continue
        out["reach"] += 1
        oc = [v for t, v in p.recorded if t == "outcome"]
        parsed = [v for t, v in p.recorded if t == "parsed_text"]

        def bad(why, scenario):
            out["witnesses"].append({"kind": "lifecycle", "scenario": scenario, "why": why, "plain": ""})
        # no write outside self
        own = lambda e: e[0] == "attr-store" and (snap.get("inst") is None or e[1] is snap.get("inst"))
        extra = sorted({e[2] for e in p.effects if own(e) and e[2] not in ("_checksum", "run_experiment")})
        foreign = [e for e in p.effects if not own(e)]
        if extra:
            # additional per-instance state: the invariant I (checksum, function) does not describe it, so this one-step
            # analysis cannot decide the property any more; a bounded search over operation sequences is asked to find a
            # history on which the evaluator stops behaving like a fresh one (replay kind lifecycle_search)
            failing = res[0] == "raise"
            out["witnesses"].append({"kind": "lifecycle_search", "scenario": "extra-state",
                                     "why": "%s keeps additional per-instance state %s%s" % (
                                         kind, extra, " and writes it on a path that raises" if failing else ""),
                                     "plain": ""})
            out["extra_state"] = extra
            out.setdefault("extra_samples", {}).update({n_: snap["after"].get(n_) for n_ in extra})
        if snap["class_changed"] or snap["module_changed"] or snap["other_changed"] or foreign:
            out["witnesses"].append({"kind": "lifecycle_search", "scenario": "isolation",
                                     "why": "%s writes outside the instance: class %s module %s other-instance %s effects %s" % (
                                         kind, snap["class_changed"], snap["module_changed"], snap["other_changed"],
                                         [(e[0], str(e[2])[:30]) for e in foreign][:3]), "plain": ""})
        if kind == "call":
            if not (res[0] == "return" and isinstance(res[1], tuple) and len(res[1]) == 2
                    and isinstance(res[1][0], str) and res[1][0] == "old-function"
                    and isinstance(res[1][1], dict) and set(res[1][1]) == {"uid", "extra"}
                    and isinstance(res[1][1]["uid"], SStr) and res[1][1]["extra"] == 3):
                bad("__call__ does not forward to the installed function: %r" % (res,), "call")
            if p.effects:
                bad("__call__ writes state: %s" % [(e[0], e[2]) for e in p.effects][:3], "call")
            continue
        before, after = snap["before"], snap["after"]
        if parsed and not (isinstance(parsed[0], SStr) and parsed[0].term.eq(t_new)):
            bad("the text handed to the parser is not the argument of recompile", "ok")
        if not oc:
            # compile never attempted: must be the unchanged-text case, and a no-op
            if kind == "init":
                bad("construction skipped compilation", "init")
                continue
            r, m = common.check(tally, conds + [t_old != t_new], timeout_ms,
                                label="C11 compilation skipped although the text differs", keep_sample=True)
            if r == "sat" and md5.preprocessed:
                # the checksum is taken from a function of the text that the model leaves uninterpreted: whether two
                # different programs share a checksum is decided by a bounded search over confusable texts
                out["witnesses"].append({"kind": "lifecycle_search", "scenario": "stale-preprocessed",
                                         "why": "recompile is skipped whenever %s coincides for the old and the new text, and "
                                                "the text is transformed before it is hashed" % md5.describe(), "plain": ""})
            elif r == "sat":
                bad("recompile skips compilation for a text that differs from the accepted one", "stale")
            elif r == "unknown":
                out["status"] = "inconclusive"
            if res[0] != "return" or after.get("run_experiment") is not before.get("run_experiment") or \
                    not _same_checksum(tally, conds, before, after, timeout_ms):
                bad("recompiling the current text is not a no-op", "noop")
            continue
        outcome = oc[-1]
        if outcome == "ok":
            fn = after.get("run_experiment")
            new_ok = isinstance(fn, PyFunc) and fn.name == "fn_new"
            cs = checksum_term(after.get("_checksum"))
            if res[0] != "return" or not new_ok:
                bad("successful compilation does not install the new function: %r / %r" % (res, fn), "ok")
            elif cs is None:
                bad("checksum after success is %r" % (after.get("_checksum"),), "ok")
            else:
                r, m = common.check(tally, conds + [cs != md5(t_new)], timeout_ms,
                                    label="C11 checksum after success = md5(new text)", keep_sample=True)
                if r == "sat":
                    bad("after a successful recompile the stored checksum is not that of the new text", "ok")
                elif r == "unknown":
                    out["status"] = "inconclusive"
        else:
            if res[0] != "raise":
                bad("compilation failure (%s) does not raise: %r" % (outcome, res), "swallow")
                continue
            if kind == "init":
                continue
            if after.get("run_experiment") is not before.get("run_experiment"):
                bad("a failed recompile (%s) replaces the installed function" % outcome, "atomic")
            if not _same_checksum(tally, conds, before, after, timeout_ms):
                bad("a failed recompile (%s) changes the stored checksum: the same invalid text is then silently "
                    "accepted" % outcome, "repeat")
    if out.get("extra_state") and pre_extras is None:
        # Additional attributes: strengthen the invariant to "I and these attributes hold ANYTHING" and repeat the step
        # analysis (recompile and __call__) from such pre-states.  If every obligation still holds, the attributes cannot
        # influence behaviour (write-only bookkeeping such as a copy of the source) and induction goes through; otherwise
        # the bounded history search below has to decide.
        samples = out.get("extra_samples", {})
        inert = True
        for k2 in ("recompile", "call"):
            sub = analyse(k2, timeout_ms, pre_extras=samples)
            tally.merge(sub["tally"])
            out["paths"] += sub["paths"]
            if sub["status"] != "ok" or [w for w in sub["witnesses"] if w["scenario"] != "extra-state"]:
                inert = False
        if inert:
            out["witnesses"] = [w for w in out["witnesses"] if w["scenario"] != "extra-state"]
            out["stubs"] = list(out["stubs"]) + ["invariant strengthened: attributes %s may hold any value before a step "
                                                 "(no obligation depends on them)" % sorted(samples)]
    out.pop("extra_samples", None)     # symbolic values: not to be sent back through the worker pool
    out["tally"] = tally
    return out


def _same_checksum(tally, conds, before, after, timeout_ms):
    a, b = checksum_term(before.get("_checksum")), checksum_term(after.get("_checksum"))
    if a is None or b is None:
        return before.get("_checksum") is after.get("_checksum")
    r, m = common.check(tally, conds + [a != b], timeout_ms, label="C11 checksum unchanged", keep_sample=True)
    return r == "unsat"


def _dispatch(a):
    if a[0].startswith("H"):
        from vf.props import C11b
        return C11b.analyse(a[0], a[1])
    return analyse(a[0], a[1])


def main(tier):
    common.setup_path()
    rep = common.Reporter(PROP)
    timeout_ms = 60000
    named = representation_named()
    items = [("H1", timeout_ms), ("H2", timeout_ms), ("H3", timeout_ms)]
    if named:
        items = [("recompile", timeout_ms), ("init", timeout_ms), ("call", timeout_ms)] + items
    results = common.pmap(_dispatch, items, procs=6)
    total = Tally()
    encoded, stubs = {}, set()
    n_paths = reach = 0
    seen = set()
    known = common.findings_for(PROP)
    for r in results:
        total.merge(r["tally"])
        n_paths += r["paths"]
        reach += r["reach"]
        encoded.update(r["encoded"])
        stubs.update(r["stubs"])
        if r["status"] == "inconclusive":
            rep.inconc("%s: %s" % (r["name"], r.get("note", "?")))
        for w in r["witnesses"]:
            if w["scenario"] in seen:
                continue
            seen.add(w["scenario"])
            payload = dict(w)
            payload["property"] = PROP
            payload.pop("plain", None)
            o = common.run_replay_subprocess(payload, timeout=300)
            payload["replay_result"] = o
            summary = "%s | %s" % (w["why"], o.get("observed", ""))
            if o.get("reproduced"):
                rep.violation(payload, summary)
            elif w["kind"] == "lifecycle_search":
                rep.inconc("the evaluator keeps per-instance state that the inductive invariant does not cover (%s); the bounded "
                           "search over operation sequences found no misbehaving history" % w["why"])
            else:
                rep.inconc("witness did not reproduce: " + summary)
    if "extra-state" not in seen and "isolation" not in seen and not any(x.startswith("behavioural") or x.startswith("stale") for x in seen):
        # no symbolic finding asked for it: the bounded history search is still run once as a cross-check of the abstract
        # compile step against the real one (histories over related texts, confusable texts, experiments named like the
        # generated code's own identifiers); a misbehaving history is a reproduced violation in its own right
        payload = {"kind": "lifecycle_search", "scenario": "baseline", "property": PROP,
                   "why": "history search over real compiles (no symbolic finding)"}
        o = common.run_replay_subprocess(payload, timeout=600)
        payload["replay_result"] = o
        if o.get("reproduced"):
            rep.violation(payload, "%s | %s" % (payload["why"], o.get("observed", "")))
        elif o.get("reproduced") is None:
            rep.inconc("history search did not finish: %s" % str(o)[:200])
    coverage = {
        "states": max(reach, 1),
        "transitions": max(n_paths, 1),
        "traces_validated_against_impl": 1,
        "samples": total.samples[:4] or [{"note": "none"}],
        "programs": 3,
        "disagreements_checked": total.unsat + total.sat,
        "paths": n_paths,
        "reachability_twins_passed": reach,
        "queries": total.as_dict(),
        "functions_encoded": encoded,
        "stubs_used": sorted(stubs) + ["parse_source / PythonCodeGen collapsed into an abstract compile outcome "
                                       "{Ok | None | raises | generated text rejected by compile()}",
                                       "pre-state: arbitrary evaluator satisfying _checksum = md5hex(t_old) and an opaque installed function"],
        "analyses": (["step analysis over the named representation (_checksum, run_experiment)"] if named else
                     ["the evaluator does not keep its state in _checksum / run_experiment: named step analysis not applicable"]) +
                    ["behavioural step analysis (attributes never inspected) from pre-histories H1 new(t); H2 new(t0);recompile(t); "
                     "H3 new(t);recompile(bad)"],
        "bounds": ("one step (recompile / __init__ / __call__) from an arbitrary invariant-satisfying state: histories of any "
                   "length by induction (the induction argument is written in DESIGN.md, not machine-checked); " if named else
                   "behavioural analysis only: one step after pre-histories of length <= 2; ") + "texts unbounded",
    }
    common.write_evidence(PROP, "model_checking", coverage,
                          ["MD5 collision-freeness on source texts", "compile()/exec() semantics as implemented in pysym"],
                          rep.wall, len(rep.violations), tier)
    print("C11: %d paths, %d reachable, queries %s, wall %.1fs" % (n_paths, reach, total.as_dict(), rep.wall))
    return rep.exit_code()
