"""C02 -- compiled routing equals the DSL's if / else-if / else and operator semantics.

Per program of the family: the text produced by the real lexer -> parser -> code generator
is executed symbolically (pysym) with every condition field symbolic and the choice
function replaced by "report the population"; the solver is asked, per path, for field
values on which the selected return statement differs from the reference reading
(vf/ref/dsl.py).  unsat on every path = the program routes correctly for ALL inputs of
the typed domain.
"""
from __future__ import annotations

import contextlib
import io
import sys
import time

import z3

from vf import common, harness
from vf.common import Tally
from vf.ref import dsl
from vf.replay import enc

PROP = "C02"


def field_setup(prog, numeric):
    sorts, conflicts = dsl.infer_field_sorts(prog)
    env = {}
    for name, s in sorts.items():
        env[name] = harness.sym_value("fld_" + name, s, numeric)
    return sorts, env, conflicts


def real_outcome_label(evaluator, fields):
    buf = io.StringIO()
    try:
        with contextlib.redirect_stdout(buf), contextlib.redirect_stderr(buf):
            v = evaluator(**fields)
    except Exception as e:
        if type(e).__name__ == "ExperimentConditionalFailedError":
            return -1
        return ("bad", "raised %s" % type(e).__name__)
    if isinstance(v, str) and v.startswith("L"):
        head = v[1:].split("_")[0]
        if head.isdigit():
            return int(head)
    return ("bad", "returned %r" % (v,))


def check_program(item):
    """Worker: returns a picklable result dict."""
    kind, prog, numeric, timeout_ms = item[:4]
    force = item[4] if len(item) > 4 else None
    common.setup_path()
    t0 = time.time()
    res = {"kind": kind, "numeric": numeric, "status": "ok", "paths": 0, "validated": 0,
           "tally": None, "witness": None, "note": None, "encoded": {}, "stubs": []}
    tally = Tally()
    text = dsl.program_text(prog)
    res["text"] = text
    gen = harness.real_generate(text)
    if gen.error is not None or gen.text is None or harness.real_python_compiles(gen.text):
        err = gen.error or harness.real_python_compiles(gen.text)
        res["status"] = "violation"
        res["witness"] = {"kind": "compiles", "text": text,
                          "why": "a grammatical experiment of the routing family does not compile: %s" % (err,)}
        res["summary"] = "does not compile: %s" % (err,)
        res["tally"] = tally.as_dict()
        return res
    if gen.printed.strip():
        res["note"] = "lexer/parser printed: %r" % gen.printed.strip()[:120]
    sorts, env, conflicts = field_setup(prog, numeric)
    if force:
        conflicts = []
        for name, srt in force.items():
            sorts[name] = srt
            env[name] = harness.sym_value("fld_" + name, srt, numeric)
    if conflicts:
        res["status"] = "skipped"
        res["note"] = "ill-typed family member (fields %s)" % conflicts
        res["tally"] = tally.as_dict()
        return res
    kwargs = dict(env)
    for sp in (prog.splitters or ()):
        if sp not in kwargs:
            kwargs[sp] = harness.sym_value("spl_" + sp, "str")
    run = harness.run_generated(gen.text, gen.fn_name, kwargs, stub_choice=True,
                                opts={"prune": True, "max_loop": 200, "float_mode": "fp" if numeric == "fp" else "real"})
    res["paths"] = len(run.paths)
    res["encoded"] = run.encoded_digest()
    res["stubs"] = run.notes
    m = dsl.Meaning(_NoCtx(), env)
    ref_sel = m.select(prog.body)

    # real evaluator for translator validation
    from pyab_experiment.experiment_evaluator import ExperimentEvaluator
    try:
        buf = io.StringIO()
        with contextlib.redirect_stdout(buf), contextlib.redirect_stderr(buf):
            real_ev = ExperimentEvaluator(text)
    except Exception as e:
        res["status"] = "violation"
        res["witness"] = {"kind": "compiles", "text": text, "why": "ExperimentEvaluator raised %s" % type(e).__name__}
        res["summary"] = "ExperimentEvaluator(text) raised %s: %s" % (type(e).__name__, str(e)[:100])
        res["tally"] = tally.as_dict()
        return res

    rep = []
    for v in env.values():
        rep += harness.representable_constraint(v)

    for pi, path in enumerate(run.paths):
        lab = harness.outcome_label(path.outcome)
        if path.outcome.kind == "unsupported":
            # is this path feasible at all?
            r, mdl = common.check(tally, path.conds, timeout_ms)
            if r == "unsat":
                continue
            res["status"] = "inconclusive"
            res["note"] = "unsupported construct on a feasible path: %s" % path.outcome.reason
            break
        # (1) reachability twin + translator validation: a model of the path condition,
        #     replayed on the real evaluator, must give the outcome pysym predicts
        r, mdl = common.check(tally, path.conds + rep, timeout_ms)
        if r == "sat":
            fields = {k: harness.model_value(mdl, v) for k, v in kwargs.items()}
            got = real_outcome_label(real_ev, fields)
            if got != lab:
                res["status"] = "inconclusive"
                res["note"] = ("translator validation failed: pysym predicts %r, CPython gives %r on %r"
                               % (lab, got, fields))
                break
            res["validated"] += 1
        elif r == "unknown":
            res["status"] = "inconclusive"
            res["note"] = "solver unknown on path feasibility: %s" % mdl
            break
        # (2) the property on this path
        if isinstance(lab, tuple):
            viol = path.conds  # any input on this path is a violation (None / other exception)
            lab_term = None
        else:
            viol = path.conds + [ref_sel != lab]
        r, mdl = common.check(tally, viol, timeout_ms, label="%s path %d" % (prog.name, pi),
                              keep_sample=(pi == 0))
        if r == "unknown":
            res["status"] = "inconclusive"
            res["note"] = "solver unknown on routing query: %s" % mdl
            break
        if r == "sat":
            r2, mdl2 = common.check(tally, viol + rep, timeout_ms)
            if r2 == "sat":
                mdl = mdl2
            fields = {k: harness.model_value(mdl, v) for k, v in kwargs.items()}
            cenv = {k: fields[k] for k in env}
            try:
                expected = dsl.concrete_select(prog.body, cenv)
            except TypeError as e:
                res["status"] = "inconclusive"
                res["note"] = "reference not defined on witness %r (%s)" % (cenv, e)
                break
            res["status"] = "violation"
            res["witness"] = {
                "kind": "routing", "text": text,
                "fields": {k: enc(v) for k, v in fields.items()},
                "expected": {"label": expected} if expected >= 0 else {"unroutable": True},
                "predicted_impl": str(lab), "family": kind,
            }
            res["summary"] = "fields %r: reference selects %s, compiled code %s" % (
                fields, ("return #%d" % expected) if expected >= 0 else "nothing (unroutable)",
                ("return #%d" % lab) if isinstance(lab, int) and lab >= 0 else
                ("unroutable" if lab == -1 else lab[1]))
            break
    res["tally"] = tally.as_dict()
    res["samples"] = tally.samples[:1]
    res["wall"] = time.time() - t0
    return res


class _NoCtx:
    float_mode = "real"

    def note(self, *_):
        pass


def main(tier):
    common.setup_path()
    from vf.families import programs as fam
    rep = common.Reporter(PROP)
    timeout_ms = 60000 if tier == "quick" else 600000
    family = fam.routing_family(tier, common.seed())
    items = []
    for kind, p in family:
        items.append((kind, p, "real", timeout_ms))
        if kind in ("single", "doc"):
            items.append((kind, p, "int", timeout_ms))
        if kind in ("single", "doc", "mixed") or tier == "thorough":
            # numeric fields over ALL binary64 values (NaN, +-inf, -0.0 included): a 'simplification' such as
            # not (a < b) -> a >= b is only wrong on NaN
            items.append((kind, p, "fp", timeout_ms))
    # field names taken from the generated code's own vocabulary (locals, helper and parameter names the real generator
    # emits): a condition field with such a name is where generated code can capture the caller's value.  Names already
    # recorded as C07 findings (they fail to evaluate at all) are left to C07.
    from vf.props import C07
    from vf.ref.dsl import Program, If, Cmp, Id, Lit, relabel
    from vf.families.programs import R
    for n in C07.generated_vocabulary():
        if n in C07.HELPERS or n in C07.RESERVED or C07.resolved_at_run_time(n):
            continue        # shadowing a name the generated code resolves: C07's recorded finding, whatever the helper is called
        for op in ("==", ">", "in"):
            rhs = Lit(1) if op != "in" else dsl.Tup((Lit(1), Lit(2)))
            body = If(((Cmp(Id(n), op, rhs), R()),), R())
            items.append(("vocabulary", relabel(Program("exp", body, "s", ("uid",))), "real", timeout_ms))
            items.append(("vocabulary", relabel(Program("exp", body, None, (n, "uid"))), "int", timeout_ms))
    # shapes of the sizes around every integer constant the front end compares with (none on the pinned tree)
    from vf.props import sizes as _sizes
    for kind, p_ in fam.derived_size_programs(_sizes.frontend_sizes()):
        items.append((kind, p_, "real", timeout_ms))
    results = common.pmap(check_program, items, chunksize=4)

    total = Tally()
    n_prog = n_paths = n_valid = 0
    by_kind = {}
    samples = []
    stubs = set()
    encoded = {}
    distinct_texts = set()
    known = common.findings_for(PROP)
    for r in results:
        t = r["tally"]
        total.unsat += t["unsat"]
        total.sat += t["sat"]
        total.unknown += t["unknown"]
        total.time += t["solver_time_s"]
        total.max_time = max(total.max_time, t["slowest_query_s"])
        n_prog += 1
        n_paths += r["paths"]
        n_valid += r["validated"]
        distinct_texts.add(r.get("text"))
        by_kind[r["kind"]] = by_kind.get(r["kind"], 0) + 1
        stubs.update(r.get("stubs") or [])
        encoded.update(r.get("encoded") or {})
        if r["status"] == "violation" and len(rep.violations) >= 5:
            suppressed = locals().get("suppressed", 0) + 1
        elif r["status"] == "violation":
            w = r["witness"]
            payload = dict(w)
            payload["property"] = PROP
            out = common.run_replay_subprocess(payload)
            payload["replay_result"] = out
            if out.get("reproduced"):
                rep.violation(payload, r["summary"] + " | " + out.get("observed", ""))
            else:
                rep.inconc("witness did not reproduce on the real code: %s / %s" % (r["summary"], out))
        elif r["status"] == "inconclusive":
            rep.inconc("%s: %s" % (r["text"].splitlines()[1].strip() if r.get("text") else "?", r["note"]))
        if r.get("samples") and len(samples) < 4:
            s = dict(r["samples"][0])
            s["program"] = r["text"]
            samples.append(s)

    coverage = {
        "programs": len(distinct_texts),
        "disagreements_checked": total.unsat + total.sat,
        "samples": samples or [{"note": "no query issued"}],
        "family_members_by_kind": by_kind,
        "program_typings_checked": n_prog,
        "paths": n_paths,
        "queries": total.as_dict(),
        "traces_validated_against_impl": n_valid,
        "reachability_twins_passed": n_valid,
        "functions_encoded": encoded,
        "stubs_used": sorted(stubs) + ["deterministic_choice replaced by 'report (key, population, weights)'"],
        "bounds": "inputs: every condition field ranges over all values of its inferred sort (numbers: all "
                  "reals incl. every int and finite float, and separately all binary64 values incl. NaN, +-inf, -0.0; "
                  "strings: all strings; containers: tuples of length 2); programs: the enumerated family only (see "
                  "family_members_by_kind); mixed-sort field values and longer containers are outside the claim",
        "explanation": "per program and per symbolic path one solver query "
                       "`path condition AND reference_selection != implementation_label`; unsat everywhere",
    }
    common.write_evidence(PROP, "translation_validation", coverage,
                          ["CPython comparison semantics as transcribed in vf/pysym/ops.py (validated per path "
                           "against the real evaluator)", "reference reading of the DSL in vf/ref/dsl.py",
                           "z3 5.1.0"], rep.wall, len(rep.violations), tier)
    if locals().get("suppressed"):
        print("(%d further violating programs not replayed after the first 5)" % suppressed)
    print("C02: %d programs (%d typings), %d paths, queries %s, validated %d, wall %.1fs" % (
        len(distinct_texts), n_prog, n_paths, total.as_dict(), n_valid, rep.wall))
    return rep.exit_code()
