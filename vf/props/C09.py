"""C09 -- assignment depends only on salt, splitter values and the routed branch.

Relational obligations over pairs of symbolic runs of the generated function (choice
function replaced by 'report (key, population, weights)'; MD5 never enters):
  (i)   extra keyword arguments      (ii) experiment name      (iii) splitter declaration order
  (iv)  order in which arguments are passed
  (v)   condition-field values that select the same return statement
  (vi)  sat-expected twins: key varies with every splitter and with the salt
  (vii) a missing declared field is a TypeError on every path
"""
from __future__ import annotations

import dataclasses
import time

import z3

from vf import common, harness, keyrun, relational
from vf.common import Tally
from vf.pysym import ops
from vf.pysym.explore import Return, Raise, Unsup
from vf.pysym.values import SStr, SInt, SReal, Sym
from vf.ref import dsl
from vf.replay import enc

PROP = "C09"
ABS = {"abstract_int_str": True}


_TYPING = {}


def fields_of(model, kwargs):
    return {k: keyrun.typed_value(harness.model_value(model, v), _TYPING.get(k)) for k, v in kwargs.items()}


def pair_witness(kind, ta, fa, tb, fb, why):
    return {"kind": kind, "a": {"text": ta, "fields": {k: enc(v) for k, v in fa.items()}},
            "b": {"text": tb, "fields": {k: enc(v) for k, v in fb.items()}}, "why": why,
            "plain": "A=%r B=%r" % (fa, fb)}


def check_item(item):
    bname, prog, typing, timeout_ms = item
    common.setup_path()
    tally = Tally()
    out = {"status": "ok", "witnesses": [], "obligations": 0, "paths": 0, "reach": 0, "twins": 0,
           "encoded": {}, "stubs": [], "text": None}
    try:
        _check(prog, typing, timeout_ms, tally, out)
    except common.Inconclusive as e:
        out["status"] = "inconclusive"
        out["note"] = str(e)
    out["tally"] = tally
    return out


def _rep(kwargs):
    r = []
    for v in kwargs.values():
        r += harness.representable_constraint(v)
    return r


def _check(prog, typing, timeout_ms, tally, out):
    _TYPING.clear()
    _TYPING.update(typing or {})
    A = keyrun.keyed_run(prog, typing, opts=ABS)
    out["text"] = A.text
    if A.run is None:
        out["status"] = "nocompile"
        out["note"] = str(A.gen.error)
        return
    out["paths"] += len(A.run.paths)
    out["encoded"].update(A.run.encoded_digest())
    out["stubs"] = A.run.notes
    for p in A.run.paths:
        if isinstance(p.outcome, Unsup):
            r, m = common.check(tally, p.conds, timeout_ms)
            if r != "unsat":
                raise common.Inconclusive("unsupported on feasible path: %s" % p.outcome.reason)
    pathsA = [p for p in A.run.paths if not isinstance(p.outcome, Unsup)]
    rep = _rep(A.kwargs)
    # reachability of the base run (vacuity guard)
    for p in pathsA:
        r, m = common.check(tally, p.conds, timeout_ms)
        if r == "sat":
            out["reach"] += 1

    def relate(B, label, textB, kwargsB):
        out["paths"] += len(B.run.paths)
        for p in B.run.paths:
            if isinstance(p.outcome, Unsup):
                r, m = common.check(tally, p.conds, timeout_ms)
                if r != "unsat":
                    raise common.Inconclusive("unsupported on feasible path (%s): %s" % (label, p.outcome.reason))
        pb = [p for p in B.run.paths if not isinstance(p.outcome, Unsup)]
        sat = relational.compare_runs(tally, pathsA, pb, timeout_ms, "C09 " + label, sample=True)
        out["obligations"] += 1
        for m, pa, pb_ in sat[:1]:
            r2, m2 = common.check(tally, list(pa.conds) + list(pb_.conds) + rep +
                                  ([] if relational.differ_term(pa.outcome, pb_.outcome) is True else
                                   [relational.differ_term(pa.outcome, pb_.outcome)]), timeout_ms)
            if r2 == "sat":
                m = m2
            fa = fields_of(m, A.kwargs)
            fb = fields_of(m, kwargsB)
            out["witnesses"].append(pair_witness("pair_equal", A.text, fa, textB, fb,
                                                 "%s changes the outcome" % label))

    # (i) extra keyword arguments
    extra = {"zz_extra": SStr(z3.String("extra_s")), "n_extra": SInt(z3.Int("extra_i")), "flag": True,
             "nothing": None}
    # names a "convenience" feature might treat specially
    for i, nm in enumerate(["salt", "seed", "weights", "population", "debug", "key", "override", "force", "group", "variant",
                            "default", "input_id", "cum_weights", "experiment", "name", "id"]):
        if nm not in A.kwargs and nm != prog.name:
            extra[nm] = SStr(z3.String("extra_named_%d" % i)) if i % 2 == 0 else SInt(z3.Int("extra_named_%d" % i))
    B = keyrun.keyed_run(prog, typing, extra_kwargs=extra, opts=ABS, gen=A.gen, text=A.text)
    relate(B, "extra keyword arguments", A.text, B.kwargs)
    # (ii) experiment name
    p2 = dataclasses.replace(prog, name="another_name_2")
    B = keyrun.keyed_run(p2, typing, opts=ABS)
    if B.run is None:
        raise common.Inconclusive("renamed program does not compile: %s" % (B.gen.error,))
    relate(B, "the experiment name", B.text, B.kwargs)
    # (iii) splitter declaration order
    if prog.splitters and len(prog.splitters) > 1:
        p3 = dataclasses.replace(prog, splitters=tuple(reversed(prog.splitters)))
        B = keyrun.keyed_run(p3, typing, opts=ABS)
        if B.run is None:
            raise common.Inconclusive("reordered program does not compile")
        relate(B, "the declaration order of splitters", B.text, B.kwargs)
        rot = tuple(prog.splitters[1:]) + (prog.splitters[0],)
        if rot != tuple(reversed(prog.splitters)):
            p3 = dataclasses.replace(prog, splitters=rot)
            B = keyrun.keyed_run(p3, typing, opts=ABS)
            relate(B, "the declaration order of splitters", B.text, B.kwargs)
    # (iv) argument order
    B = keyrun.keyed_run(prog, typing, opts=ABS, gen=A.gen, text=A.text, order="reversed")
    relate(B, "the order in which arguments are passed", A.text, B.kwargs)

    # (v) condition fields with the same selected return statement -> same triple
    cond_only = {k: v for k, v in A.env.items() if k not in A.spl}
    consts = relational.z3_consts_of(cond_only)
    if consts:
        mapping = [(c, z3.Const(str(c) + "__2", c.sort())) for c in consts]
        P2 = relational.rename_vars(pathsA, mapping)
        out["obligations"] += 1
        for pa in pathsA:
            for pb in P2:
                la, lb = harness.outcome_label(pa.outcome), harness.outcome_label(pb.outcome)
                if la != lb or not isinstance(la, int) or la < 0:
                    continue
                d = relational.differ_term(pa.outcome, pb.outcome)
                if d is False:
                    continue
                cons = list(pa.conds) + list(pb.conds) + ([] if d is True else [d])
                r, m = common.check(tally, cons, timeout_ms, label="C09 (v) condition-field independence",
                                    keep_sample=True)
                if r == "unknown":
                    raise common.Inconclusive("unknown on (v)")
                if r == "sat":
                    fa = fields_of(m, A.kwargs)
                    kw2 = {k: relational.rename_value(v, mapping) for k, v in A.kwargs.items()}
                    fb = fields_of(m, kw2)
                    out["witnesses"].append(pair_witness(
                        "pair_equal_key", A.text, fa, A.text, fb,
                        "condition-field values change the hashed key although return #%d is selected both times" % la))
                    break

    # (vi) sat-expected twins
    choice_paths = [p for p in pathsA if isinstance(p.outcome, Return) and isinstance(p.outcome.value, harness.Choice)]
    if choice_paths:
        p0 = choice_paths[0]
        key0 = p0.outcome.value.key
        for sp, v in A.spl.items():
            if not isinstance(v, Sym):
                continue
            mapping = [(v.term, z3.Const(str(v.term) + "__2", v.term.sort()))]
            key2 = relational.rename_value(key0, mapping)
            conds2 = [z3.substitute(c, *mapping) for c in p0.conds]
            if not ops.is_strlike(key0):
                out["witnesses"].append({"kind": "structural", "why": "key is not a string"})
                continue
            q = list(p0.conds) + conds2 + [ops.str_term(key0) != ops.str_term(key2)]
            r, m = common.check(tally, q, timeout_ms, label="C09 (vi) key varies with splitter " + sp)
            out["obligations"] += 1
            if r == "unknown":
                raise common.Inconclusive("unknown on (vi)")
            if r == "unsat":
                r0, m0 = common.check(tally, list(p0.conds) + rep, timeout_ms)
                fa = fields_of(m0, A.kwargs) if r0 == "sat" else {}
                fb = dict(fa)
                fb[sp] = _other_value(fa.get(sp))
                out["witnesses"].append(pair_witness("pair_differ", A.text, fa, A.text, fb,
                                                     "the hashed key does not depend on splitter '%s'" % sp))
            else:
                out["twins"] += 1
        # salts
        other = "zz-other-salt" if prog.salt != "zz-other-salt" else "yy"
        p5 = dataclasses.replace(prog, salt=other)
        B = keyrun.keyed_run(p5, typing, opts=ABS)
        if B.run is not None:
            cb = [p for p in B.run.paths if isinstance(p.outcome, Return) and isinstance(p.outcome.value, harness.Choice)]
            if cb and ops.is_strlike(cb[0].outcome.value.key) and ops.is_strlike(key0):
                q = list(p0.conds) + list(cb[0].conds) + [ops.str_term(key0) != ops.str_term(cb[0].outcome.value.key)]
                r, m = common.check(tally, q, timeout_ms, label="C09 (vi) key varies with the salt")
                out["obligations"] += 1
                if r == "unknown":
                    raise common.Inconclusive("unknown on (vi) salt")
                if r == "unsat":
                    r0, m0 = common.check(tally, list(p0.conds) + rep, timeout_ms)
                    fa = fields_of(m0, A.kwargs) if r0 == "sat" else {}
                    out["witnesses"].append(pair_witness("pair_differ", A.text, fa, B.text, fa,
                                                         "the hashed key does not depend on the salt"))
                else:
                    out["twins"] += 1

    # (vii) missing declared field
    for name in list(A.kwargs):
        B = keyrun.keyed_run(prog, typing, opts=ABS, gen=A.gen, text=A.text, drop=name)
        out["paths"] += len(B.run.paths)
        out["obligations"] += 1
        for p in B.run.paths:
            if isinstance(p.outcome, Raise) and p.outcome.exc_name == "TypeError":
                continue
            r, m = common.check(tally, list(p.conds) + _rep(B.kwargs), timeout_ms, label="C09 (vii) missing field " + name)
            if r == "unsat":
                continue
            if r == "unknown":
                raise common.Inconclusive("unknown on (vii)")
            f = fields_of(m, B.kwargs)
            out["witnesses"].append({"kind": "eval_value", "text": A.text, "fields": {k: enc(v) for k, v in f.items()},
                                     "expected": {"raises": ["TypeError"]},
                                     "why": "missing declared field '%s' is not reported as an error" % name,
                                     "plain": repr(f)})
            break


def _other_value(v):
    if isinstance(v, str):
        return v + "x"
    if isinstance(v, bool) or v is None:
        return "other"
    if isinstance(v, (int, float)):
        return v + 1
    return "other"


def main(tier):
    common.setup_path()
    from vf.families import splitters as sf
    rep = common.Reporter(PROP)
    timeout_ms = 60000 if tier == "quick" else 600000
    fam = sf.splitter_family(tier, common.seed())
    items = []
    seen = set()
    for bname, prog in fam:
        tys = sf.typings(prog.splitters, tier, common.seed())
        if tier != "thorough":
            tys = tys[:2]
        for ty in tys:
            items.append((bname, prog, ty, timeout_ms))
    results = common.pmap(check_item, items, chunksize=2)
    total = Tally()
    texts, encoded, stubs = set(), {}, set()
    n_ob = n_paths = reach = twins = 0
    for r in results:
        total.merge(r["tally"])
        n_ob += r["obligations"]
        n_paths += r["paths"]
        reach += r["reach"]
        twins += r["twins"]
        encoded.update(r["encoded"])
        stubs.update(r["stubs"])
        if r["text"]:
            texts.add(r["text"])
        if r["status"] == "inconclusive":
            rep.inconc(r.get("note", "?"))
        elif r["status"] == "nocompile":
            rep.inconc("family member does not compile: %s" % r.get("note"))
        for w in r["witnesses"]:
            _report(rep, w)
    coverage = {
        "programs": len(texts),
        "disagreements_checked": total.unsat + total.sat,
        "samples": total.samples[:4] or [{"note": "none"}],
        "relational_obligations": n_ob,
        "program_typings_checked": len(items),
        "paths": n_paths,
        "reachability_twins_passed": reach,
        "sat_expected_twins_passed": twins,
        "queries": total.as_dict(),
        "functions_encoded": encoded,
        "stubs_used": sorted(stubs) + ["deterministic_choice replaced by 'report (key, population, weights)'"],
        "bounds": "program pairs from the splitter family; field values unbounded within str/int (below CPython's 4300-digit str() limit)/float/bool/None; "
                  "extra kwargs: four concrete names with symbolic/concrete values",
    }
    common.write_evidence(PROP, "translation_validation", coverage,
                          ["Python keyword-argument binding as implemented in vf/pysym/interp.py:bind_args",
                           "str(int) abstracted by an uninterpreted function (sound for equalities)"],
                          rep.wall, len(rep.violations), tier)
    print("C09: %d programs, %d typings, %d obligations, queries %s, wall %.1fs" % (
        len(texts), len(items), n_ob, total.as_dict(), rep.wall))
    return rep.exit_code()


def _report(rep, w):
    if len(rep.violations) >= 5:
        return
    if w["kind"] == "structural":
        rep.inconc(w["why"])
        return
    payload = dict(w)
    payload["property"] = PROP
    plain = payload.pop("plain", "")
    if payload["kind"] == "pair_equal_key":
        payload["kind"] = "pair_equal"
        payload["keys_only"] = True
    out = common.run_replay_subprocess(payload)
    payload["replay_result"] = out
    summary = "%s; %s | %s" % (w["why"], plain, out.get("observed", ""))
    if out.get("reproduced"):
        rep.violation(payload, summary)
    else:
        rep.inconc("witness did not reproduce: " + summary)
