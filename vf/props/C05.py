"""C05 -- literals reach run time with their exact value and type.

The path of a literal is cut into four stages, each with its own solver lemma; every witness
is replayed end-to-end through ExperimentEvaluator:
  lex     token functions (pysym on their source): value = int(s) / float(s) / s[1:-1], with
          LX-ACCEPT(STRING_LITERAL / numbers) from the lexer lemmas;
  model   pydantic-v1 union validation of the AST fields: member order and smart_union READ from
          the live classes, acceptance modelled; symbolic literal (any int / any string / float);
  render  the real code generator run symbolically with the literal symbolic: every occurrence is a
          faithful rendering (repr / str) or is put to the solver against Python's literal syntax;
  run     per example literal of the property: the compiled program's routing and returned value
          over ALL field values of the literal's sort and of the other sort (C02's machinery).
"""
from __future__ import annotations

import contextlib
import io

import z3

from vf import common, harness, keyrun, render
from vf.common import Tally
from vf.families import literals as lf
from vf.props import C02, lexcommon
from vf.pysym.explore import Return, Raise, Unsup
from vf.ref import dsl, pydantic_model as pm
from vf.ref.dsl import Program, If, Ret, Group, Lit, Id, Tup, Cmp, relabel
from vf.replay import enc

PROP = "C05"


# ---- stage: model --------------------------------------------------------------------
def stage_model(tally, timeout_ms):
    from pyab_experiment.data_structures.syntax_tree import ExperimentGroup, TerminalPredicate
    findings = []
    info = {}
    validated = 0
    fields = [(ExperimentGroup, "group_definition", "group_definition"), (TerminalPredicate, "left_term", "left_term"),
              (TerminalPredicate, "right_term", "right_term")]
    corpus = [0, 1, -5, 9007199254740993, 10 ** 30, 1.5, -0.25, 3.0, "abc", "02134", "1e5", "inf", " 12 ", "1_000", "", "nan",
              "7", "-1", "0x10", "1.5", [1, 2, 3], ["a", 1], [[1, 2], 3],
              # sequences that dict() accepts: pydantic would turn them into a model member placed before `tuple`
              [["name", "alice"], ["plan", "pro"]], [["plan", "pro"], ["name", 5]], ["na", "me"], [["a", 1], ["b", 2]]]
    for cls, fname, position in fields:
        members, smart, allow_none = pm.field_info(cls, fname)
        info["%s.%s" % (cls.__name__, fname)] = {"members": members, "smart_union": smart}
        # validation of the model against the installed pydantic
        for v in corpus:
            if fname == "group_definition" and isinstance(v, list):
                continue
            want = pm.concrete_model(members, smart, v)
            try:
                kw = {"group_definition": v, "group_weight": 1} if cls is ExperimentGroup else \
                    {"left_term": v, "right_term": v, "logical_operator": 1}
                got = getattr(cls(**kw), fname)
            except Exception:
                got = ("REJECT",)
            validated += 1
            if isinstance(want, tuple) and isinstance(got, (list, tuple)) and want != ("REJECT",):
                got = tuple(got)        # TerminalPredicate keeps what the `tuple` member returns
            same = type(got) is type(want) and (got == want or (got != got and want != want))
            if not same:
                raise common.Inconclusive("pydantic model disagrees with the installed pydantic on %s=%r: model %r, real %r"
                                          % (fname, v, want, got))
        if fname != "group_definition":
            steps = pm.coerce_kind(members, smart, "list")
            if steps and steps[0][1] == "coerced-if-dictable":
                findings.append((position, "tuple", [["name", "alice"], ["plan", "pro"]],
                                 "a tuple operand that dict() accepts (a tuple of pairs) is tried against the model member %s "
                                 "before `tuple`: (('name', 'alice'), ('plan', 'pro')) becomes an identifier" % steps[0][0]))
        for kind in ("int", "float", "str"):
            steps = pm.coerce_kind(members, smart, kind)
            if not steps:
                findings.append((position, kind, "x" if kind == "str" else 1, "a %s literal is rejected by the AST model" % kind))
                continue
            for m, how, res, rex in steps:
                if how == "exact":
                    break
                if how == "coerced":
                    if kind == "int" and res == "float":
                        if position == "group_definition":
                            findings.append((position, kind, 0, "an int group is stored as float (returned 0.0 instead of 0)"))
                        # harmful for comparisons iff float(i) != i for some i
                        i = z3.Int("lit_i")
                        bv = z3.BitVec("lit_bv", 64)
                        q = [i == z3.BV2Int(bv, True),
                             z3.fpToReal(z3.fpSignedToFP(z3.RNE(), bv, z3.Float64())) != z3.ToReal(i)]
                        r, mdl = common.check(tally, q, timeout_ms, label="C05 model: int literal coerced to float changes its value",
                                              keep_sample=True)
                        if r == "sat":
                            findings.append((position, kind, mdl.eval(i, model_completion=True).as_long(),
                                             "int operand coerced to float: value changes beyond 2^53"))
                        elif r == "unknown":
                            raise common.Inconclusive("unknown on int->float coercion query")
                    elif kind == "float" and res == "int":
                        findings.append((position, kind, 1.5, "a decimal literal is truncated to int"))
                    else:
                        findings.append((position, kind, "abc" if kind == "str" else (7 if kind == "int" else 1.5),
                                         "a %s literal is stored as %s" % (kind, res)))
                    break
                if how == "coerced-if":
                    s = z3.String("lit_s")
                    r, mdl = common.check(tally, [z3.InRe(s, render.dsl_string_contents()), z3.InRe(s, rex)], timeout_ms,
                                          label="C05 model: a string literal accepted by the %s member before str" % m,
                                          keep_sample=True)
                    if r == "sat":
                        findings.append((position, kind, harness.z3str_to_py(mdl.eval(s, model_completion=True)),
                                         "a numeric-looking string literal is coerced to %s" % res))
                        break
                    if r == "unknown":
                        raise common.Inconclusive("unknown on str coercion query")
                    continue
    return findings, info, validated


def model_witness(position, kind, lit, desc):
    if kind == "tuple":
        spelled = "(" + ", ".join("(" + ", ".join('"%s"' % x if isinstance(x, str) else str(x) for x in pair) + ")" for pair in lit) + ")"
        text = 'def exp { splitters: uid if fld in %s { return "in" weighted 1 } else { return "out" weighted 1 } }' % spelled
        return {"kind": "eval_value", "text": text, "fields": {"uid": enc("u"), "fld": enc(tuple(lit[1]))},
                "expected": {"one_of": [enc("in")]}, "why": "%s (operand %s)" % (desc, spelled)}
    if kind == "str":
        q = lf.quote(lit)
        if q is None:
            return None
        value, spelled = lit, q
    elif kind == "int":
        value, spelled = lit, (str(lit) if lit >= 0 else "-" + str(-lit))
    else:
        value, spelled = lit, dsl.float_text(lit)
    if position in ("group_definition",):
        text = 'def exp { splitters: uid return %s weighted 1 }' % spelled
        return {"kind": "eval_value", "text": text, "fields": {"uid": enc("u")}, "expected": {"one_of": [enc(value)]},
                "why": "%s (literal %s)" % (desc, spelled)}
    tmpl = lf.TEMPLATES["left_term" if position == "left_term" else "right_term"]
    text = tmpl.format(lit=spelled)
    return {"kind": "routing", "text": text, "fields": {"uid": enc("u"), "fld": enc(value)}, "expected": {"label": 0},
            "why": "%s (literal %s): a field equal to the literal must match it" % (desc, spelled)}


# ---- stage: run ------------------------------------------------------------------------
def example_programs(tier):
    items = []
    strings = [s for s in lf.STRINGS if lf.quote(s) is not None]
    if tier == "quick":
        strings = strings[:16] + strings[-6:]
    for s in strings:
        q = '"' if '"' not in s else "'"
        for mk in (lambda L: Cmp(Id("fld"), "==", L), lambda L: Cmp(L, "!=", Id("fld")),
                   lambda L: Cmp(Id("fld"), "in", Tup((Lit(1), L, Lit("zz"))))):
            p = relabel(Program("exp", If(((mk(Lit(s, quote=q)), R1()),), R1()), None, ("uid",)))
            items.append(("string", p, "real", None))
            items.append(("string-vs-number", p, "real", {"fld": "num"}))
    nums = [(t, int(t)) for t in lf.INTS] + [(t, -int(t[1:])) for t in lf.NEG_INTS] + \
           [(t, float(t)) for t in lf.FLOATS] + [(t, -float(t[1:])) for t in lf.NEG_FLOATS]
    if tier == "quick":
        nums = nums[:6] + nums[9:12] + nums[12:16] + nums[-3:]
    for t, v in nums:
        for op in ("==", "<", ">="):
            p = relabel(Program("exp", If(((Cmp(Id("fld"), op, Lit(v, text=t)), R1()),), R1()), None, ("uid",)))
            items.append(("number", p, "real", None))
            items.append(("number", p, "int", None))
        p = relabel(Program("exp", If(((Cmp(Id("fld"), "==", Lit(v, text=t)), R1()),), R1()), None, ("uid",)))
        items.append(("number-vs-string", p, "real", {"fld": "str"}))
    tuples = [Tup((Lit(1), Lit(2), Lit(3))), Tup((Lit("a"), Lit("b"))), Tup((Lit(1), Lit("1"), Lit(1.0, text="1.0"))),
              Tup((Tup((Lit(1), Lit(2))), Lit(3))), Tup((Lit("02134"), Lit(2134))), Tup((Lit(-1), Lit(-0.5))),
              # one-member tuples: `x in ("US")` is membership in a 1-tuple, not a substring / scalar test
              Tup((Lit("US"),)), Tup((Lit(5),)), Tup((Tup((Lit(1), Lit(2))),))]
    for tp in tuples:
        for op in ("in", "not in"):
            p = relabel(Program("exp", If(((Cmp(Id("fld"), op, tp), R1()),), R1()), None, ("uid",)))
            items.append(("tuple", p, "real", {"fld": "num"}))
            items.append(("tuple", p, "real", {"fld": "str"}))
    # tuple literals used as VALUES (operands of == / != / < and nested members), with repeated members: a tuple-typed
    # field of the same and of a smaller length must be told apart
    valued = [Tup((Lit(1),)), Tup((Lit(1), Lit(1))), Tup((Lit(-1), Lit(-1), Lit(0))), Tup((Lit("a"), Lit("a"))), Tup((Lit(2), Lit(3), Lit(2))),
              Tup((Lit(1.5, text="1.5"), Lit(1.5, text="1.5")))]
    for tp in valued:
        es = "str" if isinstance(tp.items[0].value, str) else "num"
        for op in ("==", "!=", "<", ">="):
            if es == "str" and op in ("<", ">="):
                continue
            p = relabel(Program("exp", If(((Cmp(Id("t"), op, tp), R1()),), R1()), None, ("uid",)))
            for n in sorted({len(tp.items), len(tp.items) - 1, 1}):
                if n >= 1:
                    items.append(("tuple-value", p, "real", {"t": ("tuple", es, n)}))
        nested = Tup((tp, Tup((Lit(2), Lit(3)))))
        for op in ("in", "not in"):
            p = relabel(Program("exp", If(((Cmp(Id("t"), op, nested), R1()),), R1()), None, ("uid",)))
            for n in sorted({len(tp.items), len(tp.items) - 1}):
                if n >= 1:
                    items.append(("tuple-value", p, "real", {"t": ("tuple", es, n)}))
    # a tuple literal compared against a nested tuple literal
    p = relabel(Program("exp", If(((Cmp(Tup((Lit(1), Lit(2))), "in", Tup((Tup((Lit(1), Lit(2))), Lit(3)))), R1()),), R1()), None, ("uid",)))
    items.append(("tuple", p, "real", None))
    return items


def R1():
    return Ret((Group(Lit("g"), 1),))


def returned_value_item(item):
    spelled, value, timeout_ms = item
    common.setup_path()
    tally = Tally()
    text = 'def exp { splitters: uid return %s weighted 1, "other" weighted 3 }' % spelled
    out = {"status": "ok", "witness": None, "text": text, "paths": 0, "encoded": {}}
    gen = harness.real_generate(text)
    if gen.error or gen.text is None:
        out["status"] = "violation"
        out["witness"] = {"kind": "compiles", "text": text, "why": "literal %s does not compile: %s" % (spelled, gen.error)}
        out["tally"] = tally
        return out
    from vf.pysym.values import SStr
    run = harness.run_generated(gen.text, gen.fn_name, {"uid": SStr(z3.String("uid"))})
    out["paths"] = len(run.paths)
    out["encoded"] = run.encoded_digest()
    for p in run.paths:
        v = p.outcome.value if isinstance(p.outcome, Return) else None
        ok = isinstance(v, harness.Choice) and isinstance(v.population, (list, tuple)) and len(v.population) == 2 and \
            type(v.population[0]) is type(value) and v.population[0] == value and \
            (str(v.population[0]) == str(value))
        if not ok:
            out["status"] = "violation"
            single = 'def exp { splitters: uid return %s weighted 1 }' % spelled
            out["witness"] = {"kind": "eval_value", "text": single, "fields": {"uid": enc("u")},
                              "expected": {"one_of": [enc(value)]},
                              "why": "group literal %s is not returned as %r (%s): generated population %r" % (
                                  spelled, value, type(value).__name__, getattr(v, "population", p.outcome))}
    out["tally"] = tally
    return out


def _dispatch(a):
    if a[0] == "ret":
        return returned_value_item(a[1:])
    r = C02.check_program(a[1:])
    r["encoded"] = r.get("encoded") or {}
    return r


def main(tier):
    common.setup_path()
    rep = common.Reporter(PROP)
    timeout_ms = 60000 if tier == "quick" else 600000
    total = Tally()
    witnesses = []
    # lex
    A, info = lexcommon.run({"values", "accept"})
    total.merge(A.tally)
    for f in A.findings:
        if f["lemma"] == "VALUE" or f["class"] in ("STRING_LITERAL", "NON_NEG_INTEGER", "NON_NEG_FLOAT"):
            witnesses.append(lexcommon.witness_payload(f))
    # conversion functions of the numeric token rules are total on their own lexemes (CPython's digit limit included)
    from vf.lexsym import model as lxm, rx as lrx
    known = common.findings_for(PROP)
    for r_ in A.main.rules:
        if r_.func is None or r_.type not in ("NON_NEG_INTEGER", "NON_NEG_FLOAT"):
            continue
        fpaths, frun = lxm.function_effect(r_.func, lxm.to_z3(r_.rx), init_type=r_.type, extra_opts={"int_str_limit": True})
        for fp_ in fpaths:
            if fp_["outcome"] != "raise":
                continue
            # long strings are hard for the sequence solver: offer candidate lexemes and let z3 EVALUATE the path
            # condition on them (a model supplied by us, checked by the solver's evaluator); otherwise ask it outright
            from vf.pysym.ops import INT_STR_LIMIT
            lexeme = None
            for cand in ("1" + "0" * INT_STR_LIMIT, "9" * (INT_STR_LIMIT + 1), "1" + "0" * INT_STR_LIMIT + ".5"):
                sub = [z3.simplify(z3.substitute(c_, (fp_["lexeme"].term, z3.StringVal(cand)))) for c_ in fp_["conds"]]
                if all(z3.is_true(x) for x in sub):
                    lexeme = cand
                    total.sat += 1
                    break
            res_ = "sat" if lexeme is not None else None
            if res_ is None:
                res_, m_ = common.check(total, list(fp_["conds"]), min(timeout_ms, 20000), keep_sample=False, _retry=False,
                                        label="C05 lex: the conversion function of %s raises on one of its own lexemes" % r_.type)
                if res_ == "sat":
                    lexeme = harness.z3str_to_py(m_.eval(fp_["lexeme"].term, model_completion=True))
            if res_ == "sat":
                witnesses.append({"kind": "compiles", "text": 'def e { splitters: uid return %s weighted 1 }' % lexeme,
                                  "known_class": "int-literal-digit-limit" if len(lexeme) > 4000 else None,
                                  "why": "the %s literal of %d digits cannot be converted: %s raised by the lexer" % (
                                      r_.type, len(lexeme), fp_.get("exc"))})
            elif res_ == "unknown":
                rep.inconc("unknown on conversion totality of %s" % r_.type)
    # ... and stay inside binary64: float(lexeme) is +inf from 2^1024 - 2^970 on (IEEE round-to-nearest overflow), and
    # the generator prints a float with repr(): `inf` is not a Python literal
    for r_ in A.main.rules:
        if r_.func is None or r_.type != "NON_NEG_FLOAT" or "VALUE(NON_NEG_FLOAT)" not in info["discharged"]:
            continue
        lx_ = z3.String("lexeme")
        dot = z3.IndexOf(lx_, z3.StringVal("."), 0)
        over = z3.And(z3.InRe(lx_, lxm.to_z3(r_.rx)), dot > 0,
                      z3.StrToInt(z3.SubString(lx_, 0, dot)) >= z3.IntVal(2 ** 1024 - 2 ** 970))
        cand = "1" + "0" * 310 + ".5"
        if z3.is_true(z3.simplify(z3.substitute(over, (lx_, z3.StringVal(cand))))):
            total.sat += 1
            witnesses.append({"kind": "compiles", "text": 'def e { splitters: uid return %s weighted 1 }' % cand, "fields": {"uid": enc("u")},
                              "known_class": "decimal-literal-overflow",
                              "why": "a decimal literal of %d digits exceeds the binary64 range: float() gives inf" % len(cand)})
        else:
            res_, m_ = common.check(total, [over], min(timeout_ms, 20000), _retry=False,
                                    label="C05 lex: a decimal lexeme whose value overflows binary64")
            if res_ == "unknown":
                rep.inconc("unknown on decimal literal range")
    # model
    mfind, minfo, mvalid = stage_model(total, timeout_ms)
    for position, kind, lit, desc in mfind:
        w = model_witness(position, kind, lit, desc)
        if w:
            witnesses.append(w)
    # render
    encoded, stubs = {}, set()
    occ = {}
    for position in render.POSITIONS:
        r = render.analyse_string_position(position, False, total, timeout_ms)
        encoded.update(r["encoded"])
        stubs.update(r["stubs"])
        occ[position] = r["occurrences"]
        if r["status"] == "inconclusive":
            rep.inconc("render %s: %s" % (position, r.get("note", "solver unknown")))
        expanded = []
        for kind, lit, desc in r["findings"]:
            if kind == "search":
                group = "search:%s:%s" % (position, desc[:40])
                expanded += [(kind, c, desc, group) for c in lf.STRINGS + lf.ADVERSARIAL if lf.quote(c) is not None]
            else:
                expanded.append((kind, lit, desc, None))
        for kind, lit, desc, group in expanded:
            q = lf.quote(lit) if isinstance(lit, str) else None
            if q is None:
                continue
            n_before = len(witnesses)
            if position in ("group_definition", "second_group_definition"):
                text = 'def exp { splitters: uid return %s weighted 1 }' % q
                witnesses.append({"kind": "eval_value", "text": text, "fields": {"uid": enc("u")},
                                  "expected": {"one_of": [enc(lit)]}, "why": "render(%s): %s (literal %s)" % (position, desc, q)})
            elif position == "salt":
                witnesses.append({"kind": "key", "text": lf.text_for("salt", q), "fields": {"uid": enc("u")}, "salt": lit,
                                  "splitters": ["uid"], "why": "render(salt): %s (salt %s)" % (desc, q)})
            else:
                pos = position if position in ("left_term", "right_term") else "right_term"
                witnesses.append({"kind": "routing", "text": lf.text_for(pos, q), "fields": {"uid": enc("u"), "fld": enc(lit)},
                                  "expected": {"label": 0}, "why": "render(%s): %s (literal %s)" % (position, desc, q)})
            if group:
                for w_ in witnesses[n_before:]:
                    w_["search_group"] = group
        for sort in ("int", "float"):
            if position in ("salt",):
                continue
            rn = render.analyse_number_position(position, sort, False, total, timeout_ms)
            encoded.update(rn["encoded"])
            if rn["status"] == "inconclusive":
                rep.inconc("render %s/%s: %s" % (position, sort, rn.get("note")))
            for kind, lit, desc in rn["findings"]:
                w = model_witness("group_definition" if "group" in position else "right_term", sort,
                                  7 if sort == "int" else 1.5, "render(%s): %s" % (position, desc))
                witnesses.append(w)
    # run
    items = [("route",) + (k, p, numeric, timeout_ms, force) for k, p, numeric, force in example_programs(tier)]
    rets = [(lf.quote(s), s) for s in lf.STRINGS if lf.quote(s)] + [(t, lf.value_of(t)) for t in
                                                                   lf.INTS + lf.NEG_INTS + lf.FLOATS + lf.NEG_FLOATS]
    if tier == "quick":
        rets = rets[::2]
    items += [("ret", sp, v, timeout_ms) for sp, v in rets]
    results = common.pmap(_dispatch, items, chunksize=4)
    n_paths = n_valid = 0
    texts = set()
    for r in results:
        t = r["tally"]
        if isinstance(t, dict):
            total.unsat += t["unsat"]
            total.sat += t["sat"]
            total.unknown += t["unknown"]
            total.time += t["solver_time_s"]
        else:
            total.merge(t)
        n_paths += r["paths"]
        n_valid += r.get("validated", 0)
        encoded.update(r.get("encoded") or {})
        if r.get("text"):
            texts.add(r["text"])
        if r["status"] == "violation":
            w = dict(r["witness"])
            w.setdefault("why", r.get("summary", "literal example program"))
            if "summary" in r:
                w["why"] = "run: " + r["summary"]
            witnesses.append(w)
        elif r["status"] == "inconclusive":
            rep.inconc("run: %s" % r.get("note"))
    from vf.props import glue
    try:
        gfind, gok, genc, gnotes = glue.analyse_all()
        witnesses += glue.witnesses_for(PROP, gfind)
    except common.Inconclusive as e:
        rep.inconc(str(e))
    seen = set()
    groups = {}
    for w in witnesses:
        if len(rep.violations) >= 6:
            break
        g = w.get("search_group")
        key = w["why"][:48] if not g else None
        if g:
            if groups.get(g) == "found":
                continue
            groups.setdefault(g, "open")
        elif key in seen:
            continue
        seen.add(key)
        payload = dict(w)
        payload["property"] = PROP
        payload.pop("search_group", None)
        kc = payload.pop("known_class", None)
        o = common.run_replay_subprocess(payload)
        payload["replay_result"] = o
        summary = "%s | %s" % (w["why"], o.get("observed", "")[:300])
        kf = [f for f in known if kc and f.get("class") == kc]
        if o.get("reproduced") and kf and ("ValueError" in o.get("observed", "") or "NameError" in o.get("observed", "")):
            rep.known_finding(kf[0]["what"])
        elif o.get("reproduced"):
            rep.violation(payload, summary)
            if g:
                groups[g] = "found"
        elif not g:
            rep.inconc("witness did not reproduce: " + summary)
    for g, st in groups.items():
        if st != "found":
            rep.inconc("%s: none of the corpus literals shows a deviation on the real code" % g)
    coverage = {
        "programs": len(texts),
        "disagreements_checked": total.unsat + total.sat,
        "samples": total.samples[:4] or [{"note": "none"}],
        "union_fields_read_from_live_classes": minfo,
        "pydantic_model_validations": mvalid,
        "render_occurrences": occ,
        "lexer_value_lemmas": [d for d in info["discharged"] if d.startswith("VALUE") or "STRING" in d or "NON_NEG" in d],
        "traces_validated_against_impl": n_valid + mvalid,
        "paths": n_paths,
        "queries": total.as_dict(),
        "functions_encoded": encoded,
        "stubs_used": sorted(stubs),
        "bounds": "model/render stages: any int, any string a DSL literal can contain, float; run stage: the property's example "
                  "literals (%d strings, %d numbers, 10 tuples) over all field values of both sorts; numerals <= 300 digits; "
                  "tuple nesting <= 2" % (len(lf.STRINGS), len(lf.INTS + lf.NEG_INTS + lf.FLOATS + lf.NEG_FLOATS)),
    }
    common.write_evidence(PROP, "translation_validation", coverage,
                          ["pydantic-v1 member acceptance as modelled in vf/ref/pydantic_model.py (validated on a corpus per run)",
                           "repr/str of str, int, finite float evaluate back to the same value (CPython contract)",
                           "float(text) is the nearest binary64 (CPython contract; uninterpreted in the lexer lemma)"],
                          rep.wall, len(rep.violations), tier)
    print("C05: %d programs, %d paths, model validations %d, queries %s, wall %.1fs" % (len(texts), n_paths, mvalid,
                                                                                      total.as_dict(), rep.wall))
    return rep.exit_code()
