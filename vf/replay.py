"""Replays a witness against the real, unpatched code through the public API.

usage: replay.py <file.json | ->     prints one JSON line {"reproduced": bool, ...}

A witness is `reproduced` when the real code shows the discrepancy the solver predicted
(observed behaviour != expected behaviour recorded in the payload).
"""
from __future__ import annotations

import contextlib
import io
import json
import math
import os
import sys

VERIF = os.path.dirname(os.path.dirname(os.path.abspath(__file__)))
if VERIF not in sys.path:
    sys.path.insert(0, VERIF)


def dec(v):
    if isinstance(v, dict):
        if "t" in v:
            return tuple(dec(e) for e in v["t"])
        if "l" in v:
            return [dec(e) for e in v["l"]]
        if "f" in v:
            return float(v["f"])
        if "ih" in v:
            return int(v["ih"], 16)     # hexadecimal: no limit on the number of digits
        if "i" in v:
            return int(v["i"])
        if "s" in v:
            return "".join(chr(c) for c in v["s"])
        if "none" in v:
            return None
        if "b" in v:
            return bool(v["b"])
    return v


def enc(v):
    if isinstance(v, bool):
        return {"b": v}
    if isinstance(v, int):
        if abs(v) >= 1 << 12000:
            return {"ih": hex(v)}
        return {"i": str(v)}
    if isinstance(v, float):
        return {"f": repr(v)}
    if isinstance(v, str):
        return {"s": [ord(c) for c in v]}
    if v is None:
        return {"none": 1}
    if isinstance(v, tuple):
        return {"t": [enc(e) for e in v]}
    if isinstance(v, list):
        return {"l": [enc(e) for e in v]}
    raise TypeError("cannot encode %r" % (v,))


def outcome_of(fn):
    """-> ('value', v) | ('raise', ExcName, message)"""
    buf_o, buf_e = io.StringIO(), io.StringIO()
    try:
        with contextlib.redirect_stdout(buf_o), contextlib.redirect_stderr(buf_e):
            v = fn()
        return ("value", v, buf_o.getvalue() + buf_e.getvalue())
    except BaseException as e:  # noqa: the replayer reports whatever the real code does
        return ("raise", type(e).__name__, (str(e)[:300], buf_o.getvalue() + buf_e.getvalue()))


def show(o):
    if o[0] == "value":
        return "returned %r (%s)" % (o[1], type(o[1]).__name__)
    return "raised %s: %s" % (o[1], o[2][0] if isinstance(o[2], tuple) else o[2])


# ---- kinds ---------------------------------------------------------------------------
def replay_routing(p):
    from pyab_experiment.experiment_evaluator import ExperimentEvaluator
    fields = {k: dec(v) for k, v in p["fields"].items()}
    o = outcome_of(lambda: ExperimentEvaluator(p["text"])(**fields))
    exp = p["expected"]  # {"label": k} | {"unroutable": true}
    if "label" in exp:
        ok = o[0] == "value" and isinstance(o[1], str) and (
            o[1] == "L%d" % exp["label"] or o[1].startswith("L%d_" % exp["label"]))
        want = "a group of return statement #%d" % exp["label"]
    else:
        ok = o[0] == "raise" and o[1] == "ExperimentConditionalFailedError"
        want = "ExperimentConditionalFailedError (no return statement selected)"
    return {"reproduced": not ok, "expected": want, "observed": show(o)}


def replay_compiles(p):
    """expected: the text compiles to an evaluator (and, optionally, evaluates on fields)."""
    from pyab_experiment.experiment_evaluator import ExperimentEvaluator
    o = outcome_of(lambda: ExperimentEvaluator(p["text"]))
    if o[0] == "raise":
        return {"reproduced": True, "expected": "compiles to an evaluator", "observed": show(o)}
    if "fields" in p:
        fields = {k: dec(v) for k, v in p["fields"].items()}
        ev = o[1]
        o2 = outcome_of(lambda: ev(**fields))
        allowed = p.get("allowed_errors", ["ExperimentConditionalFailedError"])
        if o2[0] == "raise" and o2[1] not in allowed:
            return {"reproduced": True, "expected": "a group or %s" % allowed, "observed": show(o2)}
        return {"reproduced": False, "expected": "a group or %s" % allowed, "observed": show(o2)}
    return {"reproduced": False, "expected": "compiles", "observed": "compiled"}


def replay_rejects(p):
    """expected: compiling the text raises."""
    from pyab_experiment.experiment_evaluator import ExperimentEvaluator
    o = outcome_of(lambda: ExperimentEvaluator(p["text"]))
    if o[0] == "value":
        return {"reproduced": True, "expected": "compilation raises an error",
                "observed": "compiled without error; output: %r" % (o[2][:200],)}
    return {"reproduced": False, "expected": "raises", "observed": show(o)}


def replay_call(p):
    """Generic: call a public function with arguments, compare with expected outcome."""
    import importlib
    mod = importlib.import_module(p["module"])
    fn = getattr(mod, p["function"])
    args = [dec(a) for a in p.get("args", [])]
    kwargs = {k: dec(v) for k, v in p.get("kwargs", {}).items()}
    o = outcome_of(lambda: fn(*args, **kwargs))
    exp = p["expected"]
    if "value" in exp:
        want = dec(exp["value"])
        ok = o[0] == "value" and type(o[1]) is type(want) and (o[1] == want or (
            isinstance(want, float) and math.isnan(want) and math.isnan(o[1])))
        return {"reproduced": not ok, "expected": "returns %r" % (want,), "observed": show(o)}
    if "raises" in exp:
        ok = o[0] == "raise" and o[1] in exp["raises"]
        return {"reproduced": not ok, "expected": "raises one of %s" % exp["raises"], "observed": show(o)}
    if "not_raises" in exp:
        ok = o[0] == "value"
        return {"reproduced": not ok, "expected": "returns a value", "observed": show(o)}
    raise ValueError("bad expected")


def replay_eval_value(p):
    """expected: evaluator(text)(**fields) returns exactly `value` with its type, or an element
    of `one_of`; or raises one of `raises`."""
    from pyab_experiment.experiment_evaluator import ExperimentEvaluator
    fields = {k: dec(v) for k, v in p["fields"].items()}
    o = outcome_of(lambda: ExperimentEvaluator(p["text"])(**fields))
    exp = p["expected"]
    if "one_of" in exp:
        wants = [dec(w) for w in exp["one_of"]]
        ok = o[0] == "value" and any(type(o[1]) is type(w) and o[1] == w for w in wants)
        return {"reproduced": not ok, "expected": "one of %r (exact type)" % (wants,), "observed": show(o)}
    if "raises" in exp:
        ok = o[0] == "raise" and o[1] in exp["raises"]
        return {"reproduced": not ok, "expected": "raises %s" % exp["raises"], "observed": show(o)}
    if "not_raises" in exp:
        ok = o[0] == "value"
        return {"reproduced": not ok, "expected": "returns a group", "observed": show(o)}
    raise ValueError("bad expected")


KINDS = {
    "routing": replay_routing,
    "compiles": replay_compiles,
    "rejects": replay_rejects,
    "call": replay_call,
    "eval_value": replay_eval_value,
}


def register(name):
    def deco(f):
        KINDS[name] = f
        return f
    return deco


def main():
    src = sys.argv[1] if len(sys.argv) > 1 else "-"
    payload = json.load(sys.stdin) if src == "-" else json.load(open(src))
    from vf import common
    common.setup_path()
    # property-specific replay kinds live next to the properties
    kind = payload["kind"]
    import vf.replay as R          # this file may be running as __main__: use the package copy
    import vf.replay_kinds         # noqa: registers the property-specific kinds in R.KINDS
    res = R.KINDS[kind](payload)
    res["kind"] = kind
    print(json.dumps(res, default=str))
    return 0


if __name__ == "__main__":
    sys.exit(main())
