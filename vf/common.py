"""Shared plumbing of the checks: repo location, solver wrapper, evidence, replays,
known findings, exit codes."""
from __future__ import annotations

import hashlib
import json
import os
import subprocess
import sys
import time

VERIF = os.path.dirname(os.path.dirname(os.path.abspath(__file__)))
REPO = os.environ.get("PYAB_REPO", "/repo")
REPO_SRC = os.path.join(REPO, "src")

EXIT_OK = 0
EXIT_VIOLATION = 1
EXIT_INCONCLUSIVE = 2


def setup_path():
    """Make `pyab_experiment` import from the repository's *current* working tree."""
    if REPO_SRC in sys.path:
        sys.path.remove(REPO_SRC)
    sys.path.insert(0, REPO_SRC)
    want = os.path.realpath(os.path.join(REPO_SRC, "pyab_experiment"))
    have = sys.modules.get("pyab_experiment")
    if have is not None and os.path.realpath(os.path.dirname(getattr(have, "__file__", "") or "")) == want:
        return      # already imported from the right tree: re-importing would re-run class bodies (pydantic validators
                    # refuse to be registered twice)
    for k in [k for k in sys.modules if k == "pyab_experiment" or k.startswith("pyab_experiment.")]:
        del sys.modules[k]
    import pyab_experiment
    got = os.path.realpath(os.path.dirname(pyab_experiment.__file__))
    want = os.path.realpath(os.path.join(REPO_SRC, "pyab_experiment"))
    if got != want:
        raise RuntimeError("pyab_experiment imported from %s, expected %s" % (got, want))


def seed():
    try:
        return int(os.environ.get("VERIF_SEED", "0"))
    except ValueError:
        return 0


def tier(default="quick"):
    t = os.environ.get("VERIF_TIER", default)
    return t if t in ("quick", "thorough") else default


def sha(text):
    return hashlib.sha256(text.encode("utf-8", "surrogatepass")).hexdigest()[:16]


class Inconclusive(Exception):
    """solver unknown / unsupported construct / failed vacuity twin / non-reproducing witness"""


# ------------------------------------------------------------------------------------
# solver wrapper with accounting
# ------------------------------------------------------------------------------------
class Tally:
    def __init__(self):
        self.unsat = 0
        self.sat = 0
        self.unknown = 0
        self.time = 0.0
        self.samples = []
        self.max_time = 0.0

    def merge(self, other):
        self.unsat += other.unsat
        self.sat += other.sat
        self.unknown += other.unknown
        self.time += other.time
        self.max_time = max(self.max_time, other.max_time)
        for s in other.samples:
            if len(self.samples) < 12:
                self.samples.append(s)

    def as_dict(self):
        return {"unsat": self.unsat, "sat": self.sat, "unknown": self.unknown,
                "solver_time_s": round(self.time, 3), "slowest_query_s": round(self.max_time, 3)}


def check(tally, constraints, timeout_ms=60000, label=None, keep_sample=False, seed_=None, tactic=None, _retry=True):
    """Returns ('unsat', None) | ('sat', model) | ('unknown', reason)."""
    import z3
    if tactic is not None:
        s = z3.Tactic(tactic).solver()
    else:
        s = z3.Solver()
    s.set("timeout", int(timeout_ms))
    if seed_ is not None:
        try:
            s.set("random_seed", int(seed_) % (2 ** 31))
        except z3.Z3Exception:
            pass
    for c in constraints:
        s.add(c)
    t0 = time.time()
    r = s.check()
    dt = time.time() - t0
    tally.time += dt
    tally.max_time = max(tally.max_time, dt)
    if keep_sample and len(tally.samples) < 12:
        smt = s.to_smt2()
        if len(smt) > 1500:
            smt = smt[:1500] + "\n; ... (truncated)"
        tally.samples.append({"label": label, "verdict": str(r), "time_s": round(dt, 3), "smt2": smt})
    if r == z3.unsat:
        tally.unsat += 1
        return "unsat", None
    if r == z3.sat:
        tally.sat += 1
        return "sat", s.model()
    reason = s.reason_unknown()
    if _retry and tactic is None and ("timeout" in reason or "canceled" in reason or "cancelled" in reason):
        # a loaded machine can push a query over its budget: one retry with four times the budget (and another seed)
        # before the verdict is reported as unknown
        return check(tally, constraints, timeout_ms * 4, label=label, keep_sample=False,
                     seed_=(seed_ or 0) + 7919, tactic=None, _retry=False)
    tally.unknown += 1
    return "unknown", reason


# ------------------------------------------------------------------------------------
# evidence
# ------------------------------------------------------------------------------------
def write_evidence(prop, level, coverage, assumptions, wall, violations, tier_):
    evdir = os.environ.get("VERIF_EVIDENCE_DIR") or os.path.join(VERIF, "evidence")
    os.makedirs(evdir, exist_ok=True)
    ev = {
        "property_id": prop,
        "tier": tier_,
        "seed": seed(),
        "level": level,
        "coverage": coverage,
        "assumptions": assumptions,
        "wall_s": round(wall, 2),
        "violations": violations,
    }
    path = os.path.join(evdir, "%s.json" % prop)
    tmp = path + ".tmp"
    with open(tmp, "w") as fh:
        json.dump(ev, fh, indent=1, default=str)
    os.replace(tmp, path)
    return path


# ------------------------------------------------------------------------------------
# replays and known findings
# ------------------------------------------------------------------------------------
def write_replay(prop, payload):
    os.makedirs(os.path.join(VERIF, "replays"), exist_ok=True)
    body = json.dumps(payload, indent=1, sort_keys=True, default=str)
    name = "%s-%s.json" % (prop, hashlib.sha256(body.encode()).hexdigest()[:12])
    path = os.path.join(VERIF, "replays", name)
    with open(path, "w") as fh:
        fh.write(body)
    return path


def run_replay_subprocess(payload, timeout=120, env_extra=None):
    """Runs vf/replay.py on `payload` in a fresh interpreter against the repository as it is.
    Returns the dict printed by the replayer."""
    env = dict(os.environ)
    env["PYAB_REPO"] = REPO
    if env_extra:
        env.update(env_extra)

    def once(flags):
        p = subprocess.run([sys.executable] + list(flags) + [os.path.join(VERIF, "vf", "replay.py"), "-"],
                           input=json.dumps(payload), capture_output=True, text=True, timeout=timeout,
                           env=env, cwd=VERIF)
        out = p.stdout.strip().splitlines()
        for line in reversed(out):
            if line.startswith("{"):
                try:
                    return json.loads(line)
                except ValueError:
                    pass
        return {"reproduced": None, "error": "replayer produced no result", "stdout": p.stdout[-2000:],
                "stderr": p.stderr[-2000:]}
    res = once(payload.get("python_flags") or [])
    if not res.get("reproduced") and not payload.get("python_flags") and repo_uses_assert():
        # the code under test validates something with `assert`: users running `python -O` do not have those statements
        res2 = once(["-O"])
        if res2.get("reproduced"):
            res2["observed"] = "under python -O: " + str(res2.get("observed", ""))
            res2["python_flags"] = ["-O"]
            return res2
    return res


_ASSERT_SCAN = {}


def repo_uses_assert():
    """does the package (vendored sly excluded) contain an assert statement?"""
    if "v" in _ASSERT_SCAN:
        return _ASSERT_SCAN["v"]
    import ast
    found = False
    base = os.path.join(REPO_SRC, "pyab_experiment")
    for root, dirs, files in os.walk(base):
        if os.path.basename(root) == "sly":
            dirs[:] = []
            continue
        for f in files:
            if f.endswith(".py"):
                try:
                    tree = ast.parse(open(os.path.join(root, f), encoding="utf-8").read())
                except Exception:
                    continue
                if any(isinstance(n, ast.Assert) for n in ast.walk(tree)):
                    found = True
    _ASSERT_SCAN["v"] = found
    return found


def load_known_findings():
    path = os.path.join(VERIF, "known_findings.json")
    if not os.path.exists(path):
        return {"findings": [], "fixed": []}
    with open(path) as fh:
        return json.load(fh)


def findings_for(prop):
    return [f for f in load_known_findings().get("findings", []) if f.get("property") == prop]


class Reporter:
    """Collects violations / known findings / inconclusive notes of one check run."""

    def __init__(self, prop):
        self.prop = prop
        self.violations = []     # replay paths
        self.known = []
        self.inconclusive = []
        self.t0 = time.time()

    def violation(self, payload, summary):
        path = write_replay(self.prop, payload)
        rel = os.path.relpath(path, VERIF)
        print("VIOLATION property=%s replay=%s" % (self.prop, rel))
        print("  " + summary)
        sys.stdout.flush()
        self.violations.append(rel)

    def known_finding(self, text):
        line = "KNOWN-FINDING: property=%s %s" % (self.prop, text)
        if line not in self.known:
            print(line)
            sys.stdout.flush()
            self.known.append(line)

    def inconc(self, text):
        print("INCONCLUSIVE property=%s %s" % (self.prop, text))
        sys.stdout.flush()
        self.inconclusive.append(text)

    def exit_code(self):
        if self.violations:
            return EXIT_VIOLATION
        if self.inconclusive:
            return EXIT_INCONCLUSIVE
        return EXIT_OK

    @property
    def wall(self):
        return time.time() - self.t0


def _scrub(v, depth=0):
    """results travel through a pipe: solver terms and symbolic values (whose pickling can block inside the z3 library
    of a forked child) are replaced by their text"""
    import z3 as _z3
    if isinstance(v, Tally):
        return v
    if isinstance(v, (_z3.AstRef, _z3.ModelRef, _z3.FuncDeclRef)) or type(v).__module__.startswith("vf.pysym"):
        try:
            return "<%s %s>" % (type(v).__name__, str(getattr(v, "term", v))[:80])
        except Exception:
            return "<%s>" % type(v).__name__
    if depth > 8:
        return v
    if isinstance(v, dict):
        return {k: _scrub(x, depth + 1) for k, x in v.items()}
    if isinstance(v, list):
        return [_scrub(x, depth + 1) for x in v]
    if isinstance(v, tuple):
        return tuple(_scrub(x, depth + 1) for x in v)
    return v


class _Scrubbed:
    def __init__(self, fn):
        self.fn = fn

    def __call__(self, x):
        return _scrub(self.fn(x))


def pmap(fn, items, procs=None, chunksize=1):
    """Parallel map with fork; results in order.  fn must be a module-level function."""
    import multiprocessing as mp
    procs = procs or min(16, os.cpu_count() or 1)
    if procs <= 1 or len(items) <= 1:
        return [fn(x) for x in items]
    ctx = mp.get_context("fork")
    with ctx.Pool(procs) as pool:
        return pool.map(_Scrubbed(fn), items, chunksize=chunksize)


def check_portfolio(tally, constraints, plan=((None, 20000), ("qfnra-nlsat", 60000), (None, 120000)), label=None,
                    keep_sample=False):
    """Tries several z3 strategies in turn; the first definite verdict wins."""
    last = ("unknown", "no strategy")
    for i, (tactic, tmo) in enumerate(plan):
        sub = Tally()
        r = check(sub, constraints, tmo, label=label, keep_sample=keep_sample, tactic=tactic, _retry=False)
        tally.time += sub.time
        tally.max_time = max(tally.max_time, sub.max_time)
        if r[0] != "unknown":
            tally.unsat += sub.unsat
            tally.sat += sub.sat
            for smp in sub.samples:
                if len(tally.samples) < 12:
                    smp["strategy"] = tactic or "default"
                    tally.samples.append(smp)
            return r
        last = r
    tally.unknown += 1
    return last
