"""Driver: python -m vf.run <ID> [--tier quick|thorough] [--replay PATH]"""
from __future__ import annotations

import argparse
import importlib
import json
import os
import sys
import traceback


def main():
    ap = argparse.ArgumentParser()
    ap.add_argument("prop")
    ap.add_argument("--tier", default=os.environ.get("VERIF_TIER", "quick"), choices=["quick", "thorough"])
    ap.add_argument("--replay")
    a = ap.parse_args()
    os.environ["VERIF_TIER"] = a.tier
    sys.setrecursionlimit(20000)
    from vf.pysym import ops as _ops      # reads CPython's int<->str digit limit (part of the modelled semantics) ...
    if hasattr(sys, "set_int_max_str_digits"):
        sys.set_int_max_str_digits(0)     # ... before lifting it for the checker's own arithmetic (z3 numerals, witnesses);
                                          # replays run in fresh interpreters with the default limit
    from vf import common
    if a.replay:
        payload = json.load(open(a.replay))
        out = common.run_replay_subprocess(payload)
        print(json.dumps(out, indent=1))
        return 1 if out.get("reproduced") else 0
    try:
        mod = importlib.import_module("vf.props." + a.prop)
    except ModuleNotFoundError:
        print("no check for %s" % a.prop)
        return 2
    try:
        return mod.main(a.tier)
    except common.Inconclusive as e:
        print("INCONCLUSIVE property=%s %s" % (a.prop, e))
        return 2
    except Exception as e:
        if type(e).__name__ in ("RxUnsupported", "Unsupported"):
            # the code under analysis uses a construct outside the encodable subset: an honest 'cannot decide'
            print("INCONCLUSIVE property=%s the encoding does not reach this code: %s" % (a.prop, e))
            return 2
        traceback.print_exc()
        print("HARNESS-ERROR property=%s" % a.prop)
        return 2


if __name__ == "__main__":
    sys.exit(main())
