"""Relational (two-run) obligations over pysym path sets."""
from __future__ import annotations

import z3

from vf import common, harness
from vf.pysym import ops
from vf.pysym.explore import Return, Raise, Unsup
from vf.pysym.values import Sym


class _C:
    float_mode = "real"
    opts = {}

    def note(self, *_):
        pass


def differ_term(a, b):
    """Python bool or z3 Bool: the two path outcomes are observably different."""
    if isinstance(a, Unsup) or isinstance(b, Unsup):
        raise common.Inconclusive("unsupported outcome in relational comparison: %r / %r" % (a, b))
    if type(a) is not type(b):
        return True
    if isinstance(a, Raise):
        return a.exc_name != b.exc_name
    va, vb = a.value, b.value
    if isinstance(va, harness.Choice) and isinstance(vb, harness.Choice):
        parts = []
        for x, y in ((va.key, vb.key), (va.population, vb.population), (va.weights, vb.weights),
                     (va.cum_weights, vb.cum_weights)):
            d = value_differ(x, y)
            if d is True:
                return True
            if d is not False:
                parts.append(d)
        if not parts:
            return False
        return z3.Or(*parts)
    if isinstance(va, harness.Choice) or isinstance(vb, harness.Choice):
        return True
    return value_differ(va, vb)


def value_differ(x, y):
    if x is None or y is None:
        return not (x is None and y is None)
    if type(x) in (list, tuple) and type(y) in (list, tuple) and type(x) is not type(y):
        return True
    if type(x) in (list, tuple) and type(y) in (list, tuple):
        # member by member, so that the exact type of each member counts (a population [0, 1] is not [0.0, 1.0])
        if len(x) != len(y):
            return True
        parts = []
        for a, b in zip(x, y):
            d = value_differ(a, b)
            if d is True:
                return True
            if d is not False:
                parts.append(d)
        return z3.Or(*parts) if parts else False
    # exact type matters for returned groups (0 vs 0.0 vs False)
    if not isinstance(x, Sym) and not isinstance(y, Sym) and not isinstance(x, (list, tuple)):
        if type(x) is not type(y):
            return True
    t = ops.eq_term(_C(), x, y)
    if isinstance(t, bool):
        return not t
    return z3.Not(t)


def compare_runs(tally, paths_a, paths_b, timeout_ms, label, extra=(), sample=False):
    """For all pairs of paths: (pc_a AND pc_b AND outcomes differ) must be unsat.
    Returns list of (model, path_a, path_b) for sat pairs; raises Inconclusive on unknown."""
    out = []
    first = True
    for pa in paths_a:
        for pb in paths_b:
            d = differ_term(pa.outcome, pb.outcome)
            if d is False:
                continue
            cons = list(pa.conds) + list(pb.conds) + list(extra)
            if d is not True:
                cons.append(d)
            r, m = common.check(tally, cons, timeout_ms, label=label, keep_sample=sample and first)
            first = False
            if r == "unknown":
                raise common.Inconclusive("solver unknown on %s: %s" % (label, m))
            if r == "sat":
                out.append((m, pa, pb))
    return out


def rename_vars(paths, mapping):
    """Copies of path conditions/outcomes with z3 constants substituted (for two-copy
    self-composition).  mapping: list of (old_const, new_const)."""
    import copy
    res = []
    for p in paths:
        q = copy.copy(p)
        q.conds = [z3.substitute(c, *mapping) for c in p.conds]
        q.outcome = rename_outcome(p.outcome, mapping)
        res.append(q)
    return res


def rename_value(v, mapping):
    if isinstance(v, Sym):
        import copy
        c = copy.copy(v)
        c.term = z3.substitute(v.term, *mapping)
        if getattr(c, "bv", None) is not None:
            c.bv = z3.substitute(c.bv, *mapping)
        return c
    if isinstance(v, list):
        return [rename_value(e, mapping) for e in v]
    if isinstance(v, tuple):
        return tuple(rename_value(e, mapping) for e in v)
    if isinstance(v, harness.Choice):
        return harness.Choice(rename_value(v.key, mapping), rename_value(v.population, mapping),
                              rename_value(v.weights, mapping), rename_value(v.cum_weights, mapping))
    return v


def rename_outcome(o, mapping):
    if isinstance(o, Return):
        return Return(rename_value(o.value, mapping))
    return o


def z3_consts_of(values):
    """all z3 constants appearing in a collection of pysym values"""
    out = []

    def rec(v):
        if isinstance(v, Sym):
            out.append(v.term)
        elif isinstance(v, (list, tuple)):
            for e in v:
                rec(e)
        elif isinstance(v, dict):
            for e in v.values():
                rec(e)
    rec(values)
    return out
