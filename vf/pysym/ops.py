"""Python operator semantics over concrete and symbolic values (explicit, no dunder magic)."""
from __future__ import annotations

import ast
import math
import z3

from .values import (Sym, SBool, SInt, SReal, SFP, SStr, SBytes, SHex, SOpaque, Unsupported, SNorm, norm_eq_regex, SBytesBV,
                     contains_sym, float_to_real, fp_const, FP64, RNE, pytype_of)
from .explore import SymRaise

NUMERIC_CONCRETE = (bool, int, float)


def raise_(exc):
    raise SymRaise(exc)


# ------------------------------------------------------------------------------------
# numeric lifting
# ------------------------------------------------------------------------------------
def is_numeric(v):
    return isinstance(v, (SInt, SReal, SFP, SBool)) or (
        isinstance(v, NUMERIC_CONCRETE))


def num_kind(v):
    if isinstance(v, (SBool, SInt)) or isinstance(v, (bool, int)):
        return "int"
    if isinstance(v, SReal):
        return "real"
    if isinstance(v, SFP):
        return "fp"
    if isinstance(v, float):
        return "float"  # concrete float: adapts to the other side
    raise Unsupported("not numeric: %r" % type(v).__name__)


def int_term(v):
    if isinstance(v, SInt):
        return v.term
    if isinstance(v, SBool):
        return z3.If(v.term, z3.IntVal(1), z3.IntVal(0))
    if isinstance(v, bool):
        return z3.IntVal(1 if v else 0)
    if isinstance(v, int):
        return z3.IntVal(v)
    raise Unsupported("int_term of %s" % type(v).__name__)


def real_term(v):
    if isinstance(v, SReal):
        return v.term
    if isinstance(v, float):
        if math.isnan(v) or math.isinf(v):
            raise Unsupported("non-finite float in exact-real mode")
        return float_to_real(v)
    return z3.ToReal(int_term(v))


def fp_term(v, exact_only=False):
    """binary64 term of a Python number, as CPython's float(v) would give it."""
    if isinstance(v, SFP):
        return v.term
    if isinstance(v, float):
        return fp_const(v)
    if isinstance(v, bool):
        return fp_const(1.0 if v else 0.0)
    if isinstance(v, int):
        try:
            f = float(v)
        except OverflowError:
            raise Unsupported("int too large for float")
        if exact_only and int(f) != v:
            raise Unsupported("int %d not exactly representable in binary64" % v)
        return fp_const(f)
    if isinstance(v, SInt):
        if getattr(v, "fpsrc", None) is not None:
            return v.fpsrc
        if v.bv is not None and v.bv.size() <= 53:
            return z3.fpUnsignedToFP(RNE, v.bv, FP64)
        if exact_only:
            raise Unsupported("symbolic int without bit-vector origin in exact int/float comparison")
        if v.bv is not None:
            return z3.fpUnsignedToFP(RNE, v.bv, FP64)
        return z3.fpRealToFP(RNE, z3.ToReal(v.term), FP64)
    if isinstance(v, SBool):
        return z3.If(v.term, fp_const(1.0), fp_const(0.0))
    raise Unsupported("fp_term of %s" % type(v).__name__)


def join_kinds(a, b, float_mode):
    ka, kb = num_kind(a), num_kind(b)
    ks = {ka, kb}
    if ks == {"int"}:
        return "int"
    if "fp" in ks:
        if "real" in ks:
            raise Unsupported("mixing exact-real and bit-precise floats")
        return "fp"
    if "real" in ks:
        return "real"
    # concrete float with int(s)
    return "fp" if float_mode == "fp" else "real"


# ------------------------------------------------------------------------------------
# truth
# ------------------------------------------------------------------------------------
def truth_term(ctx, v):
    """z3 Bool (or Python bool) for bool(v)."""
    if isinstance(v, SBool):
        return v.term
    if isinstance(v, SInt):
        return v.term != 0
    if isinstance(v, SReal):
        return v.term != 0
    if isinstance(v, SFP):
        return z3.Not(z3.fpIsZero(v.term))
    if isinstance(v, SStr):
        return z3.Length(v.term) > 0
    if isinstance(v, SNorm):
        e = norm_eq_regex(v, "")
        return z3.Not(z3.InRe(v.term, e))
    if isinstance(v, (SHex,)):
        return v.nbits > 0
    if isinstance(v, Sym):
        raise Unsupported("truth of %s" % type(v).__name__)
    if hasattr(v, "pysym_truth"):
        return v.pysym_truth(ctx)
    if isinstance(v, (list, tuple, dict, set, frozenset, str, bytes, int, float, bool, type(None))):
        return bool(v)
    return bool(v)


def truth(ctx, v) -> bool:
    t = truth_term(ctx, v)
    if isinstance(t, bool):
        return t
    return ctx.branch(t)


def wrap_bool(t):
    if isinstance(t, bool):
        return t
    t = z3.simplify(t)
    if z3.is_true(t):
        return True
    if z3.is_false(t):
        return False
    return SBool(t)


def bool_term(v):
    if isinstance(v, bool):
        return z3.BoolVal(v)
    if isinstance(v, SBool):
        return v.term
    raise Unsupported("bool_term of %s" % type(v).__name__)


# ------------------------------------------------------------------------------------
# str() / repr()
# ------------------------------------------------------------------------------------
def _fn(name, *sorts):
    return z3.Function(name, *sorts)


def FSTR():
    return _fn("py_float_str", z3.RealSort(), z3.StringSort())


def FPSTR():
    return _fn("py_fp_str", FP64, z3.StringSort())


def REPRSTR():
    return _fn("py_str_repr", z3.StringSort(), z3.StringSort())


def OBJSTR():
    from .values import Obj
    return _fn("py_obj_str", Obj, z3.StringSort())


import sys as _sys
# CPython's limit on int <-> decimal str conversions, read before the checker lifts it for its own process (vf/run.py)
INT_STR_LIMIT = _sys.get_int_max_str_digits() if hasattr(_sys, "get_int_max_str_digits") else 0


def _pow10(n):
    """the numeral 10**n without going through a decimal string longer than the interpreter allows"""
    t = z3.IntVal(1)
    while n > 0:
        k = min(n, 4000)
        t = t * z3.IntVal(10 ** k)
        n -= k
    return z3.simplify(t)


def int_to_str_term(t):
    return z3.If(t >= 0, z3.IntToStr(t), z3.Concat(z3.StringVal("-"), z3.IntToStr(-t)))


def py_str(ctx, v):
    if isinstance(v, SStr):
        return v
    if isinstance(v, SInt):
        if getattr(ctx, "opts", {}).get("int_str_limit"):
            # CPython >= 3.11: str(int) refuses ints with more than sys.get_int_max_str_digits() decimal digits
            lim = INT_STR_LIMIT
            if lim:
                big = _pow10(lim)
                if ctx.branch(z3.Or(v.term >= big, v.term <= -big)):
                    raise SymRaise(ValueError("Exceeds the limit (%d digits) for integer string conversion" % lim))
        if getattr(ctx, "opts", {}).get("abstract_int_str"):
            ctx.note("stub: str(int) is the uninterpreted function py_int_str (over-approximation used "
                     "for key equalities)")
            return SStr(z3.Function("py_int_str", z3.IntSort(), z3.StringSort())(v.term))
        return SStr(int_to_str_term(v.term))
    if isinstance(v, SBool):
        return SStr(z3.If(v.term, z3.StringVal("True"), z3.StringVal("False")))
    if isinstance(v, SReal):
        ctx.note("stub: str(float) is the uninterpreted function py_float_str")
        return SStr(FSTR()(v.term))
    if isinstance(v, SFP):
        ctx.note("stub: str(float) is the uninterpreted function py_fp_str")
        return SStr(FPSTR()(v.term))
    if isinstance(v, SOpaque):
        ctx.note("stub: str(object) is the uninterpreted function py_obj_str")
        return SStr(OBJSTR()(v.term))
    if isinstance(v, SHex):
        raise Unsupported("str() of a hex digest abstraction")
    if isinstance(v, Sym):
        raise Unsupported("str() of %s" % type(v).__name__)
    if isinstance(v, (list, tuple)) and contains_sym(v):
        return py_repr(ctx, v)
    if hasattr(v, "pysym_str"):
        return v.pysym_str(ctx)
    return str(v)  # concrete object: CPython's own str()


def py_repr(ctx, v):
    if isinstance(v, SStr):
        ctx.note("stub: repr(str) is the uninterpreted function py_str_repr (contract: "
                 "evaluates back to the same str)")
        return SStr(REPRSTR()(v.term))
    if isinstance(v, (SInt, SBool, SReal, SFP)):
        return py_str(ctx, v)
    if isinstance(v, Sym):
        raise Unsupported("repr() of %s" % type(v).__name__)
    if isinstance(v, (list, tuple)) and contains_sym(v):
        parts = [py_repr(ctx, e) for e in v]
        if isinstance(v, list):
            op, cl = "[", "]"
        else:
            op, cl = "(", ",)" if len(v) == 1 else ")"
        out = op
        for i, p in enumerate(parts):
            if i:
                out = str_concat(out, ", ")
            out = str_concat(out, p)
        return str_concat(out, cl)
    if hasattr(v, "pysym_repr"):
        return v.pysym_repr(ctx)
    return repr(v)


def str_term(v):
    if isinstance(v, SStr):
        return v.term
    if isinstance(v, str):
        return z3.StringVal(v)
    raise Unsupported("str_term of %s" % type(v).__name__)


def str_concat(a, b):
    if isinstance(a, str) and isinstance(b, str):
        return a + b
    if isinstance(a, str) and a == "":
        return b
    if isinstance(b, str) and b == "":
        return a
    return SStr(z3.Concat(str_term(a), str_term(b)))


def is_strlike(v):
    return isinstance(v, (str, SStr))


# ------------------------------------------------------------------------------------
# equality / ordering
# ------------------------------------------------------------------------------------
def eq_term(ctx, a, b):
    """Python `a == b` as bool or z3 Bool."""
    if not contains_sym(a) and not contains_sym(b):
        if hasattr(a, "pysym_eq"):
            return a.pysym_eq(ctx, b)
        if hasattr(b, "pysym_eq"):
            return b.pysym_eq(ctx, a)
        r = (a == b)
        if isinstance(r, bool):
            return r
        return bool(r)
    if is_numeric(a) and is_numeric(b):
        return num_compare(ctx, "Eq", a, b)
    if isinstance(a, SNorm) or isinstance(b, SNorm):
        n, c = (a, b) if isinstance(a, SNorm) else (b, a)
        if isinstance(c, str):
            rex = norm_eq_regex(n, c)
            return False if rex is None else z3.InRe(n.term, rex)
        if isinstance(c, (SNorm, SStr)):
            raise Unsupported("== between two symbolic normalised strings")
        return False
    if is_strlike(a) and is_strlike(b):
        return str_term(a) == str_term(b)
    if isinstance(a, SOpaque) and isinstance(b, SOpaque):
        return a.term == b.term
    if isinstance(a, SHex) and isinstance(b, SHex):
        if a.nbits != b.nbits:
            return False
        return a.term == b.term
    if isinstance(a, SHex) and isinstance(b, str) or isinstance(b, SHex) and isinstance(a, str):
        h, c = (a, b) if isinstance(a, SHex) else (b, a)
        if len(c) != h.nbits // 4 or any(ch not in "0123456789abcdef" for ch in c):
            return False
        return h.term == z3.BitVecVal(int(c, 16), h.nbits)
    if isinstance(a, SBytesBV) and isinstance(b, SBytesBV):
        if a.nbytes != b.nbytes:
            return False
        return a.term == b.term
    if isinstance(a, SBytesBV) and isinstance(b, (bytes, bytearray)) or isinstance(b, SBytesBV) and isinstance(a, (bytes, bytearray)):
        h, c = (a, b) if isinstance(a, SBytesBV) else (b, a)
        if len(c) != h.nbytes:
            return False
        return h.term == z3.BitVecVal(int.from_bytes(bytes(c), "big"), 8 * h.nbytes)
    if isinstance(a, (SBytesBV, SHex)) and pytype_of(b) in (str, bytes, int, float, bool, type(None)) and \
            pytype_of(b) is not a.pytype or isinstance(b, (SBytesBV, SHex)) and \
            pytype_of(a) in (str, bytes, int, float, bool, type(None)) and pytype_of(a) is not b.pytype:
        return False        # values of different builtin types never compare equal here (bytes vs str, digest vs None ...)
    if isinstance(a, (list, tuple)) and isinstance(b, (list, tuple)):
        if isinstance(a, list) != isinstance(b, list):
            return False
        if len(a) != len(b):
            return False
        parts = [eq_term(ctx, x, y) for x, y in zip(a, b)]
        if any(p is False for p in parts):
            return False
        parts = [p for p in parts if p is not True]
        if not parts:
            return True
        return z3.And(*parts)
    if isinstance(a, SOpaque) or isinstance(b, SOpaque):
        raise Unsupported("== between an opaque object and %s" % type(b).__name__)
    if isinstance(a, SHex) or isinstance(b, SHex):
        raise Unsupported("== between a digest abstraction and another value")
    ta, tb = pytype_of(a), pytype_of(b)
    fam = lambda t: "num" if t in (bool, int, float) else t
    if fam(ta) != fam(tb):
        # different builtin families never compare equal (None, str, numbers, sequences)
        known = (bool, int, float, str, type(None), list, tuple, bytes)
        if ta in known and tb in known:
            return False
    raise Unsupported("== between %s and %s" % (ta.__name__, tb.__name__))


def num_compare(ctx, opname, a, b):
    """Exact Python comparison of two numbers (int/float/bool in any mix)."""
    if isinstance(a, SFP) or isinstance(b, SFP):
        if isinstance(a, SReal) or isinstance(b, SReal):
            raise Unsupported("mixing exact-real and bit-precise floats")
        for f, i, flip in ((a, b, False), (b, a, True)):
            if isinstance(f, SFP) and isinstance(i, SInt) and not (i.bv is not None and i.bv.size() <= 53):
                # Python compares a float with an int exactly: go through the reals (NaN never compares, infinities by sign)
                fx = f.term
                rx, ri = z3.fpToReal(fx), z3.ToReal(i.term)
                op = opname
                if flip:
                    op = {"Lt": "Gt", "LtE": "GtE", "Gt": "Lt", "GtE": "LtE", "Eq": "Eq"}[opname]
                fin = {"Eq": rx == ri, "Lt": rx < ri, "LtE": rx <= ri, "Gt": rx > ri, "GtE": rx >= ri}[op]
                neg = z3.fpIsNegative(fx)
                inf = {"Eq": z3.BoolVal(False), "Lt": neg, "LtE": neg, "Gt": z3.Not(neg), "GtE": z3.Not(neg)}[op]
                return z3.If(z3.fpIsNaN(fx), z3.BoolVal(False), z3.If(z3.fpIsInf(fx), inf, fin))
        x, y = fp_term(a, True), fp_term(b, True)
        return {"Eq": z3.fpEQ, "Lt": z3.fpLT, "LtE": z3.fpLEQ, "Gt": z3.fpGT,
                "GtE": z3.fpGEQ}[opname](x, y)
    # no bit-precise operand: ints, exact reals and concrete floats compare as reals
    for v, w, flip in ((a, b, False), (b, a, True)):
        if isinstance(v, float) and (math.isnan(v) or math.isinf(v)):
            if math.isnan(v):
                return False
            # +-inf against a finite number
            if isinstance(w, float) and (math.isnan(w) or math.isinf(w)):
                import operator as _o
                f = {"Eq": _o.eq, "Lt": _o.lt, "LtE": _o.le, "Gt": _o.gt, "GtE": _o.ge}[opname]
                return f(a, b)
            big = v > 0
            if opname == "Eq":
                return False
            v_less = not big  # v < w ?
            if not flip:
                return v_less if opname in ("Lt", "LtE") else (not v_less)
            return (not v_less) if opname in ("Lt", "LtE") else v_less
    ka, kb = num_kind(a), num_kind(b)
    if ka == "int" and kb == "int":
        x, y = int_term(a), int_term(b)
    else:
        x, y = real_term(a), real_term(b)
    return {"Eq": x == y, "Lt": x < y, "LtE": x <= y, "Gt": x > y, "GtE": x >= y}[opname]


_ORD = {"Lt": "<", "LtE": "<=", "Gt": ">", "GtE": ">="}


def order_term(ctx, opname, a, b):
    """Python a < b etc.  Raises TypeError (as SymRaise) for unordered type pairs."""
    if not contains_sym(a) and not contains_sym(b):
        try:
            if opname == "Lt":
                return bool(a < b)
            if opname == "LtE":
                return bool(a <= b)
            if opname == "Gt":
                return bool(a > b)
            return bool(a >= b)
        except TypeError as e:
            raise SymRaise(e)
    if is_numeric(a) and is_numeric(b):
        return num_compare(ctx, opname, a, b)
    if is_strlike(a) and is_strlike(b):
        x, y = str_term(a), str_term(b)
        # z3's str.< / str.<= are lexicographic by code point, as Python's
        if opname == "Lt":
            return x < y
        if opname == "LtE":
            return x <= y
        if opname == "Gt":
            return y < x
        return y <= x
    ta, tb = pytype_of(a), pytype_of(b)
    if isinstance(a, (list, tuple)) and isinstance(b, (list, tuple)) and type(a) is type(b):
        # lexicographic: the first differing pair decides, a proper prefix is smaller
        def T(x):
            return z3.BoolVal(x) if isinstance(x, bool) else x
        n = min(len(a), len(b))
        strict = "Lt" if opname in ("Lt", "LtE") else "Gt"
        alts = []
        prefix = []
        for i in range(n):
            e = T(eq_term(ctx, a[i], b[i]))
            o = T(order_term(ctx, strict, a[i], b[i]))
            alts.append(z3.And(*(prefix + [z3.Not(e), o])))
            prefix = prefix + [e]
        all_eq = z3.And(*prefix) if prefix else z3.BoolVal(True)
        if strict == "Lt":
            tail = len(a) < len(b)
        else:
            tail = len(a) > len(b)
        res = z3.Or(*(alts + [z3.And(all_eq, z3.BoolVal(tail))]))
        if opname in ("LtE", "GtE"):
            res = z3.Or(res, z3.And(all_eq, z3.BoolVal(len(a) == len(b))))
        return res
    if isinstance(a, (SOpaque, SHex)) or isinstance(b, (SOpaque, SHex)):
        raise Unsupported("ordering on opaque value")
    raise SymRaise(TypeError("'%s' not supported between instances of '%s' and '%s'" % (
        _ORD[opname], ta.__name__, tb.__name__)))


def contains_term(ctx, item, container):
    """Python `item in container`."""
    if not contains_sym(item) and not contains_sym(container):
        try:
            return item in container
        except TypeError as e:
            raise SymRaise(e)
    if isinstance(container, (list, tuple)):
        parts = []
        for e in container:
            p = e is item or eq_term(ctx, item, e)
            if p is True:
                return True
            if p is not False:
                parts.append(p)
        if not parts:
            return False
        return z3.Or(*parts)
    if isinstance(item, SNorm) and isinstance(container, str):
        # normalised symbolic string is a substring of a constant: one of its (few) substrings
        if len(container) > 24:
            raise Unsupported("substring test of a symbolic string against a long constant")
        subs = {container[i:j] for i in range(len(container) + 1) for j in range(i, len(container) + 1)}
        parts = []
        for sub in sorted(subs):
            rex = norm_eq_regex(item, sub)
            if rex is not None:
                parts.append(z3.InRe(item.term, rex))
        return z3.Or(*parts) if parts else False
    if isinstance(container, SNorm):
        if not isinstance(item, str):
            raise Unsupported("`in` with a symbolic needle and a normalised symbolic haystack")
        rex = norm_eq_regex(SNorm(container.term, container.lower, False), item)
        if rex is None:
            return False
        anyc = z3.Star(z3.AllChar(z3.ReSort(z3.StringSort())))
        return z3.InRe(container.term, z3.Concat(anyc, rex, anyc))
    if is_strlike(container):
        if not is_strlike(item):
            raise SymRaise(TypeError("'in <string>' requires string as left operand, not %s"
                                     % pytype_of(item).__name__))
        return z3.Contains(str_term(container), str_term(item))
    if isinstance(container, dict) and (contains_sym(item) or _has_symentries(ctx, container)):
        from . import models as _m
        return _m.symdict_lookup(ctx, None, container, item) is not _m._MISSING_
    if isinstance(container, (set, frozenset, dict)):
        keys = list(container)
        if contains_sym(keys):
            raise Unsupported("membership in a set/dict with symbolic members")
        if isinstance(item, SStr):
            parts = [item.term == z3.StringVal(k) for k in keys if isinstance(k, str)]
            return z3.Or(*parts) if parts else False
        if isinstance(item, (SInt, SReal, SBool)):
            parts = []
            for k in keys:
                if isinstance(k, (int, float)) and not (isinstance(k, float) and k != k):
                    t = num_compare(ctx, "Eq", item, k)
                    if t is True:
                        return True
                    if t is not False:
                        parts.append(t)
            return z3.Or(*parts) if parts else False
        raise Unsupported("membership of %s in a set/dict" % type(item).__name__)
    if isinstance(container, Sym) or container is None or isinstance(container, (int, float)):
        raise SymRaise(TypeError("argument of type '%s' is not iterable"
                                 % pytype_of(container).__name__))
    raise Unsupported("`in` on %s" % type(container).__name__)


def _has_symentries(ctx, d):
    tbl = getattr(ctx, "__dict__", {}).get("symdicts", {})
    return id(d) in tbl and bool(tbl[id(d)][1])


def compare(ctx, op, a, b):
    """One comparison; returns bool or SBool."""
    name = type(op).__name__
    if name == "Eq":
        return wrap_bool(eq_term(ctx, a, b))
    if name == "NotEq":
        t = eq_term(ctx, a, b)
        return (not t) if isinstance(t, bool) else wrap_bool(z3.Not(t))
    if name in _ORD:
        return wrap_bool(order_term(ctx, name, a, b))
    if name == "In":
        return wrap_bool(contains_term(ctx, a, b))
    if name == "NotIn":
        t = contains_term(ctx, a, b)
        return (not t) if isinstance(t, bool) else wrap_bool(z3.Not(t))
    if name in ("Is", "IsNot"):
        r = is_identical(a, b)
        return r if name == "Is" else (not r)
    raise Unsupported("comparison %s" % name)


def is_identical(a, b):
    if a is b:
        return True
    if a is None or b is None:
        # a symbolic value is never None (None is always concrete in pysym)
        return a is None and b is None
    if isinstance(a, Sym) or isinstance(b, Sym):
        if isinstance(a, bool) or isinstance(b, bool):
            raise Unsupported("`is` between bool singleton and symbolic value")
        return False
    return a is b


# ------------------------------------------------------------------------------------
# arithmetic
# ------------------------------------------------------------------------------------
def _record_exact(ctx, what, term):
    """Exact-real mode: remember that `term` must be representable for the run to be
    faithful to binary64 (discharged by harnesses that care)."""
    ctx.obligations.append(("exact:" + what, term))


def binop(ctx, op, a, b):
    name = type(op).__name__
    if not contains_sym(a) and not contains_sym(b) and not hasattr(a, "pysym_binop"):
        import operator as _o
        fn = {"Add": _o.add, "Sub": _o.sub, "Mult": _o.mul, "Div": _o.truediv,
              "FloorDiv": _o.floordiv, "Mod": _o.mod, "Pow": _o.pow, "BitOr": _o.or_,
              "BitAnd": _o.and_, "BitXor": _o.xor, "LShift": _o.lshift, "RShift": _o.rshift,
              "MatMult": _o.matmul}.get(name)
        if fn is None:
            raise Unsupported("binary operator %s" % name)
        if name == "Pow" and isinstance(a, int) and isinstance(b, int) and abs(b) > 4096:
            raise Unsupported("huge power")
        try:
            r = fn(a, b)
        except Exception as e:  # genuine Python exception of the interpreted program
            raise SymRaise(e)
        if isinstance(r, (list, dict, set)):
            ctx.alloc(r)
        return r
    # strings
    if name == "Add" and is_strlike(a) and is_strlike(b):
        return str_concat(a, b)
    if name == "Add" and (is_strlike(a) or is_strlike(b)):
        ta, tb = pytype_of(a), pytype_of(b)
        if is_strlike(a):
            raise SymRaise(TypeError('can only concatenate str (not "%s") to str' % tb.__name__))
        if tb is str and ta in (int, float, bool):
            raise SymRaise(TypeError("unsupported operand type(s) for +: '%s' and 'str'"
                                     % ta.__name__))
        raise Unsupported("+ between %s and %s" % (ta.__name__, tb.__name__))
    if name == "Mult" and is_strlike(a) and isinstance(b, int) and not isinstance(b, bool):
        out = ""
        for _ in range(max(b, 0)):
            out = str_concat(out, a)
        return out
    if name == "Add" and isinstance(a, list) and isinstance(b, list):
        return ctx.alloc(list(a) + list(b))
    if name == "Add" and isinstance(a, tuple) and isinstance(b, tuple):
        return a + b
    if name == "Mod" and is_strlike(a):
        if isinstance(a, SStr):
            ctx.note("format-template: a symbolic string is used as a %-format template (its % directives are interpreted)")
            return SStr(z3.String(ctx.fresh_name("formatted")))
        # concrete template, symbolic arguments: %s / %r / %% only
        import re as _re
        vals = list(b) if isinstance(b, tuple) else [b]
        if isinstance(b, dict):
            raise Unsupported("%-formatting with a mapping and symbolic values")
        parts = _re.split(r"(%[sr%])", a)
        if _re.search(r"%[^sr%]", a):
            ctx.note("stub: %-formatting with symbolic operands yields an arbitrary string")
            return SStr(z3.String(ctx.fresh_name("formatted")))
        out = ""
        it = iter(vals)
        for part in parts:
            if part == "%%":
                out = str_concat(out, "%")
            elif part in ("%s", "%r"):
                try:
                    v = next(it)
                except StopIteration:
                    raise SymRaise(TypeError("not enough arguments for format string"))
                out = str_concat(out, py_str(ctx, v) if part == "%s" else py_repr(ctx, v))
            else:
                out = str_concat(out, part)
        if next(it, None) is not None:
            raise SymRaise(TypeError("not all arguments converted during string formatting"))
        return out
    if is_numeric(a) and is_numeric(b):
        return num_binop(ctx, name, a, b)
    raise Unsupported("binary %s on %s and %s" % (name, pytype_of(a).__name__,
                                                  pytype_of(b).__name__))


def num_binop(ctx, name, a, b):
    k = join_kinds(a, b, ctx.float_mode)
    if name == "Div" and k == "int":
        k = "fp" if ctx.float_mode == "fp" else "real"
    if k == "int":
        x, y = int_term(a), int_term(b)
        if name == "Add":
            return SInt(x + y)
        if name == "Sub":
            return SInt(x - y)
        if name == "Mult":
            return SInt(x * y)
        if name in ("FloorDiv", "Mod"):
            if ctx.branch(y == 0):
                raise SymRaise(ZeroDivisionError("integer division or modulo by zero"))
            # Python floor division / modulo (sign of divisor); z3 div/mod are Euclidean
            if isinstance(b, int) and not isinstance(b, bool) and b > 0:
                q = x / y  # z3 integer division is floor division for a positive divisor
            else:
                q = z3.ToInt(z3.ToReal(x) / z3.ToReal(y))
            if name == "FloorDiv":
                return SInt(q)
            return SInt(x - y * q)
        if name == "Pow":
            if isinstance(b, int) and not isinstance(b, bool) and 0 <= b <= 8:
                t = z3.IntVal(1)
                for _ in range(b):
                    t = t * x
                return SInt(t)
            raise Unsupported("int ** symbolic")
        cb = b if isinstance(b, int) and not isinstance(b, bool) else None
        abv = a.bv if isinstance(a, SInt) else None
        if name == "RShift" and cb is not None and 0 <= cb <= 4096:
            # x >> n == floor(x / 2^n) for every Python int; on a value read from a bit-vector the result keeps its bits
            if abv is not None:
                w = abv.size()
                if cb >= w:
                    return 0
                hi = z3.Extract(w - 1, cb, abv)
                return SInt(z3.BV2Int(hi, False), bv=hi)
            return SInt(x / z3.IntVal(2 ** cb))
        if name == "LShift" and cb is not None and 0 <= cb <= 4096:
            return SInt(x * z3.IntVal(2 ** cb))
        if name == "BitAnd" and cb is not None and cb >= 0 and (cb & (cb + 1)) == 0:
            # x & (2^m - 1) == x mod 2^m for every Python int (two's complement semantics of &)
            m = cb.bit_length()
            if m == 0:
                return 0
            if abv is not None:
                lo = z3.Extract(min(m, abv.size()) - 1, 0, abv)
                return SInt(z3.BV2Int(lo, False), bv=lo)
            return SInt(x % z3.IntVal(2 ** m))
        if name == "BitAnd" and isinstance(a, int) and not isinstance(a, bool) and a >= 0 and (a & (a + 1)) == 0 and \
                isinstance(b, SInt):
            return num_binop(ctx, name, b, a)
        raise Unsupported("int operator %s" % name)
    if k == "real":
        x, y = real_term(a), real_term(b)
        if name == "Add":
            r = x + y
        elif name == "Sub":
            r = x - y
        elif name == "Mult":
            r = x * y
        elif name == "Div":
            if ctx.branch(y == 0):
                raise SymRaise(ZeroDivisionError("division by zero"))
            r = x / y
        elif name == "Pow":
            return real_pow(ctx, a, b)
        else:
            raise Unsupported("float operator %s in exact mode" % name)
        _record_exact(ctx, name, r)
        return SReal(r)
    # bit-precise
    if name == "Pow":
        if isinstance(b, (int, float)) and not isinstance(b, bool) and b == 2:
            x = fp_term(a)
            return SFP(z3.fpMul(RNE, x, x))          # C pow(x, 2.0) is the correctly rounded x*x
        if isinstance(b, float) and b == 0.5:
            x = fp_term(a)
            if ctx.branch(z3.fpLT(x, fp_const(0.0))):
                # CPython: a negative float ** 0.5 is a COMPLEX number; the path is marked and goes on with NaN
                ctx.note("x ** 0.5 with x < 0 yields a complex number (bit-precise run)")
                ctx.recorded.append(("complex-result", True))
                return SFP(z3.fpNaN(FP64))
            return SFP(z3.fpSqrt(RNE, x))             # pow(x, 0.5) taken as sqrt(x): same sign / zero / NaN behaviour
        raise Unsupported("** on bit-precise floats")
    if name == "Div" and num_kind(a) == "int" and num_kind(b) == "int":
        # int / int: correctly rounded true quotient; equals fp.div when both operands are
        # exactly representable
        x, y = fp_term(a, True), fp_term(b, True)
        if ctx.branch(int_term(b) == 0):
            raise SymRaise(ZeroDivisionError("division by zero"))
        return SFP(z3.fpDiv(RNE, x, y))
    x, y = fp_term(a), fp_term(b)
    if name == "Add":
        return SFP(z3.fpAdd(RNE, x, y))
    if name == "Sub":
        return SFP(z3.fpSub(RNE, x, y))
    if name == "Mult":
        return SFP(z3.fpMul(RNE, x, y))
    if name == "Div":
        if ctx.branch(z3.fpIsZero(y)):
            raise SymRaise(ZeroDivisionError("float division by zero"))
        return SFP(z3.fpDiv(RNE, x, y))
    raise Unsupported("float operator %s (bit-precise)" % name)


def SQRT():
    return z3.Function("py_sqrt", z3.RealSort(), z3.RealSort())


def real_pow(ctx, a, b):
    """x ** e in exact mode for the exponents the code base uses."""
    if isinstance(b, (int, float)) and not isinstance(b, bool):
        x = real_term(a)
        if b == 2:
            return SReal(x * x)
        if b == 1:
            return SReal(x)
        if b == 0.5:
            # CPython: negative base ** 0.5 yields a complex number
            if ctx.branch(x < 0):
                ctx.note("x ** 0.5 with x < 0 yields a complex number")
                raise Unsupported("negative ** 0.5 (complex result)")
            r = z3.Real(ctx.fresh_name("sqrt"))
            ctx.assume(z3.And(r >= 0, r * r == x))
            ctx.note("model: x ** 0.5 is the non-negative real root (exact, no rounding)")
            return SReal(r)
    raise Unsupported("power with exponent %r" % (b,))


def unaryop(ctx, op, v):
    name = type(op).__name__
    if name == "Not":
        t = truth_term(ctx, v)
        return (not t) if isinstance(t, bool) else wrap_bool(z3.Not(t))
    if not contains_sym(v):
        try:
            if name == "USub":
                return -v
            if name == "UAdd":
                return +v
            if name == "Invert":
                return ~v
        except Exception as e:
            raise SymRaise(e)
    if name == "USub":
        if isinstance(v, (SInt, SBool)):
            return SInt(-int_term(v))
        if isinstance(v, SReal):
            return SReal(-v.term)
        if isinstance(v, SFP):
            return SFP(z3.fpNeg(v.term))
    if name == "UAdd" and isinstance(v, (SInt, SReal, SFP)):
        return v
    if isinstance(v, (SStr, SOpaque, SHex, SBytes)) or v is None:
        raise SymRaise(TypeError("bad operand type for unary %s: '%s'" % (name, pytype_of(v).__name__)))
    raise Unsupported("unary %s on %s" % (name, type(v).__name__))


# ------------------------------------------------------------------------------------
# len / subscript
# ------------------------------------------------------------------------------------
def py_len(ctx, v):
    if isinstance(v, SStr):
        return SInt(z3.Length(v.term))
    if isinstance(v, SHex):
        return v.nbits // 4
    if isinstance(v, SBytesBV):
        return v.nbytes
    if isinstance(v, SBytes):
        # number of bytes of the encoding: a pure function of the text, between 1 and 4 bytes per character for UTF-8
        # (exactly one for ASCII text and for the one-byte encodings)
        ctx.note("stub: len(text.encode(%s)) is the uninterpreted function py_encoded_len" % v.encoding)
        f = z3.Function("py_encoded_len_%s" % v.encoding.replace("-", "_"), z3.StringSort(), z3.IntSort())
        n, L = f(v.term), z3.Length(v.term)
        if v.encoding == "utf-8":
            ctx.assume(z3.And(n >= L, n <= 4 * L))
            ctx.assume(z3.Implies(z3.InRe(v.term, z3.Star(z3.Range(chr(0), chr(127)))), n == L))
        else:
            ctx.assume(n == L)
        return SInt(n)
    if isinstance(v, Sym):
        if isinstance(v, (SInt, SReal, SFP, SBool)):
            raise SymRaise(TypeError("object of type '%s' has no len()" % v.pytype.__name__))
        raise Unsupported("len of %s" % type(v).__name__)
    if hasattr(v, "pysym_len"):
        return v.pysym_len(ctx)
    try:
        return len(v)
    except TypeError as e:
        raise SymRaise(e)


def getitem(ctx, obj, idx):
    if hasattr(obj, "pysym_getitem"):
        return obj.pysym_getitem(ctx, idx)
    if isinstance(obj, SBytesBV):
        n = obj.nbytes
        if isinstance(idx, slice):
            if contains_sym((idx.start, idx.stop, idx.step)):
                raise Unsupported("symbolic slice of digest bytes")
            a, b, st = idx.indices(n)
            if st != 1:
                raise Unsupported("stepped slice of digest bytes")
            if b <= a:
                return b""
            return SBytesBV(z3.Extract(8 * (n - a) - 1, 8 * (n - b), obj.term))
        if isinstance(idx, int):
            if not -n <= idx < n:
                raise SymRaise(IndexError("index out of range"))
            i = idx % n
            bv = z3.Extract(8 * (n - i) - 1, 8 * (n - i - 1), obj.term)
            return SInt(z3.BV2Int(bv, False), bv=bv)
        raise Unsupported("indexing digest bytes with %s" % type(idx).__name__)
    if isinstance(obj, SHex):
        n = obj.nbits // 4
        if isinstance(idx, slice):
            if contains_sym((idx.start, idx.stop, idx.step)):
                raise Unsupported("symbolic slice of digest")
            a, b, st = idx.indices(n)
            if st != 1:
                raise Unsupported("stepped slice of digest")
            if b <= a:
                return ""
            hi = obj.nbits - 1 - 4 * a
            lo = obj.nbits - 4 * b
            return SHex(z3.Extract(hi, lo, obj.term))
        raise Unsupported("indexing a digest abstraction")
    if isinstance(obj, SStr):
        if isinstance(idx, slice):
            if contains_sym(idx.step) or idx.step not in (None, 1) or \
                    any(isinstance(b, Sym) and not isinstance(b, SInt) for b in (idx.start, idx.stop)):
                raise Unsupported("symbolic/stepped slice of symbolic str")
            L = z3.Length(obj.term)

            def norm(i, default):
                if i is None:
                    return default
                if isinstance(i, SInt):
                    t = i.term
                    return z3.If(t >= 0, z3.If(L < t, L, t), z3.If(L + t < 0, z3.IntVal(0), L + t))
                if i >= 0:
                    return z3.If(L < i, L, z3.IntVal(i))
                return z3.If(L + i < 0, z3.IntVal(0), L + i)
            a = norm(idx.start, z3.IntVal(0))
            b = norm(idx.stop, L)
            ln = z3.If(b - a < 0, z3.IntVal(0), b - a)
            return SStr(z3.SubString(obj.term, a, ln))
        if isinstance(idx, int):
            L = z3.Length(obj.term)
            pos = z3.IntVal(idx) if idx >= 0 else L + idx
            if ctx.branch(z3.Or(pos < 0, pos >= L)):
                raise SymRaise(IndexError("string index out of range"))
            return SStr(z3.SubString(obj.term, pos, 1))
        if isinstance(idx, SInt):
            L = z3.Length(obj.term)
            i = idx.term
            if ctx.branch(z3.Or(i >= L, i < -L)):
                raise SymRaise(IndexError("string index out of range"))
            return SStr(z3.SubString(obj.term, z3.If(i >= 0, i, L + i), 1))
        raise Unsupported("symbolic index into symbolic str")
    if isinstance(obj, Sym):
        raise SymRaise(TypeError("'%s' object is not subscriptable" % obj.pytype.__name__))
    if isinstance(idx, (SInt, SBool)):
        if isinstance(obj, (list, tuple, str)):
            n = len(obj)
            it = int_term(idx)
            memo = ctx.__dict__.setdefault("_index_memo", {})
            known = memo.get((it.get_id(), n))
            if known is not None:
                return obj[known]       # this path already fixed the position of this index term
            src0 = getattr(idx, "fpsrc", None) if isinstance(idx, SInt) else None
            oob = z3.Or(it >= n, it < -n) if src0 is None else \
                z3.Or(z3.fpGEQ(src0, fp_const(float(n))), z3.fpLT(src0, fp_const(float(-n))))
            if ctx.branch(oob):
                raise SymRaise(IndexError("%s index out of range" % type(obj).__name__))
            # fork over the admissible concrete positions
            src = getattr(idx, "fpsrc", None) if isinstance(idx, SInt) else None
            for j in range(n):
                last = (j == n - 1)
                if src is not None:
                    cond = z3.Or(z3.fpEQ(src, fp_const(float(j))), z3.fpEQ(src, fp_const(float(j - n))))
                else:
                    cond = z3.Or(it == j, it == j - n)
                if last or ctx.branch(cond):
                    if last:
                        ctx.assume(cond)
                    memo[(it.get_id(), n)] = j
                    return obj[j]
        raise Unsupported("symbolic index into %s" % type(obj).__name__)
    if isinstance(obj, dict) and (contains_sym(idx) or _has_symentries(ctx, obj)):
        from . import models as _m
        v = _m.symdict_lookup(ctx, None, obj, idx)
        if v is _m._MISSING_:
            raise SymRaise(KeyError("<symbolic key>"))
        return v
    if isinstance(idx, Sym):
        if isinstance(obj, (list, tuple, str)):
            raise SymRaise(TypeError("%s indices must be integers or slices, not %s"
                                     % (type(obj).__name__, idx.pytype.__name__)))
        raise Unsupported("symbolic key")
    if hasattr(obj, "pysym_getitem"):
        return obj.pysym_getitem(ctx, idx)
    try:
        r = obj[idx]
    except Exception as e:
        raise SymRaise(e)
    if isinstance(r, list):
        ctx.alloc(r)
    return r
