"""Models (stubs with stated contracts) for builtins and library functions.

Every model that abstracts behaviour records a note on the path (`ctx.note`), so that the
list of stubs a run actually used ends up in the evidence.
"""
from __future__ import annotations

import ast
import bisect as _bisect_mod
import builtins
import enum
import functools
import hashlib
import inspect
import itertools
import math
import random as _random_mod
import types
import typing

import z3

from . import ops
from .explore import SymRaise
from .values import (Sym, SBool, SInt, SReal, SFP, SStr, SBytes, SHex, SOpaque, Unsupported, SNorm, SBytesBV, SStrList, Obj,
                     contains_sym, pytype_of, FP64, RNE, fp_const)

BUILTIN_NAMES = {
    "len", "str", "int", "float", "bool", "abs", "sorted", "list", "tuple", "set", "dict", "map",
    "isinstance", "issubclass", "getattr", "setattr", "hasattr", "print", "range", "enumerate", "zip",
    "min", "max", "sum", "any", "all", "type", "repr", "super", "hash", "id", "property", "object",
    "exec", "compile", "frozenset", "reversed", "callable", "format", "round", "iter", "next",
    "staticmethod", "classmethod", "filter", "ord", "chr", "bytes", "divmod", "pow", "vars",
    "bytearray", "memoryview", "complex", "slice",
    "globals", "locals", "open", "input", "eval", "__import__", "NotImplemented", "Ellipsis",
    "True", "False", "None", "__build_class__", "__name__",
} | {n for n in dir(builtins) if isinstance(getattr(builtins, n), type) and
     issubclass(getattr(builtins, n), BaseException)}

SAFE_BASES = {object, Exception, enum.Enum}

# native callables that may be invoked with concrete arguments
SAFE_NATIVE = {typing.TypeVar, typing.cast}


def DEFAULT_MODULE_POLICY(modname):
    if modname in ("pyab_experiment.binning.binning", "pyab_experiment.utils.stats",
                   "pyab_experiment.codegen.python.python_generator",
                   "pyab_experiment.experiment_evaluator", "pyab_experiment.utils.wraper_functions",
                   "pyab_experiment.utils.custom_operators", "pyab_experiment.binning",
                   "pyab_experiment.utils", "pyab_experiment", "pyab_experiment.codegen",
                   "pyab_experiment.codegen.python"):
        return "interpret"
    if modname.startswith("pyab_experiment."):
        # AST classes, lexer/grammar (sly metaclasses), exceptions: live objects
        return "native"
    if modname in ("hashlib", "functools", "itertools", "math", "bisect", "random", "typing", "operator",
                   "black", "enum", "os", "sys", "time", "locale", "collections", "collections.abc",
                   "threading", "uuid", "secrets", "datetime", "platform", "socket", "json", "re",
                   "string", "struct", "binascii", "zlib", "decimal", "fractions", "numbers", "copy",
                   "os.path", "pathlib", "getpass", "tempfile", "dataclasses", "abc", "warnings",
                   "logging", "contextlib", "weakref", "array", "heapq", "statistics", "base64",
                   "codecs", "unicodedata", "textwrap", "pprint", "reprlib", "types", "inspect",
                   "importlib", "pickle", "shelve", "sqlite3", "subprocess", "multiprocessing",
                   "concurrent.futures", "queue", "atexit", "gc", "ctypes", "mmap", "signal", "hmac"):
        return "native"   # module object is real; each *call* still needs a model
    return None


# ------------------------------------------------------------------------------------
# hashing
# ------------------------------------------------------------------------------------
DIGEST_BITS = {"md5": 128, "sha1": 160, "sha224": 224, "sha256": 256, "sha384": 384, "sha512": 512,
               "blake2b": 512, "blake2s": 256, "sha3_256": 256, "sha3_512": 512, "sha3_224": 224,
               "sha3_384": 384}


def digest_fn(alg):
    """Uninterpreted digest of the UTF-8 bytes of a string (deterministic total function)."""
    return z3.Function("%s_utf8" % alg, z3.StringSort(), z3.BitVecSort(DIGEST_BITS[alg]))


class HashObj:
    def __init__(self, alg, data):
        self.alg = alg
        self.data = data  # list of SBytes / bytes chunks

    def pysym_getattr(self, ctx, interp, name):
        if name in ("hexdigest", "digest", "update", "copy"):
            return _HashMethod(self, name)
        if name == "name":
            return self.alg
        if name == "digest_size":
            return DIGEST_BITS[self.alg] // 8
        raise SymRaise(AttributeError("hash object has no attribute '%s'" % name))


class _HashMethod:
    def __init__(self, h, name):
        self.h = h
        self.name = name

    def pysym_call(self, ctx, interp, args, kwargs):
        h = self.h
        if self.name == "update":
            h.data.append(_as_bytes(ctx, args[0]))
            return None
        if self.name == "copy":
            return HashObj(h.alg, list(h.data))
        if self.name == "hexdigest":
            if all(isinstance(c, bytes) for c in h.data):
                return getattr(hashlib, h.alg)(b"".join(h.data)).hexdigest()
            return SHex(_digest_term(ctx, h))
        if self.name == "digest":
            if all(isinstance(c, bytes) for c in h.data):
                return getattr(hashlib, h.alg)(b"".join(h.data)).digest()
            return SBytesBV(_digest_term(ctx, h))
        raise Unsupported("hash method %s" % self.name)


def _as_bytes(ctx, v):
    if isinstance(v, (bytes, SBytes)):
        return v
    if isinstance(v, (str, SStr)):
        raise SymRaise(TypeError("Strings must be encoded before hashing"))
    raise Unsupported("hash update with %s" % type(v).__name__)


def _digest_term(ctx, h):
    s = None
    for c in h.data:
        if isinstance(c, bytes):
            try:
                t = z3.StringVal(c.decode("utf-8"))
            except UnicodeDecodeError:
                raise Unsupported("non-UTF-8 concrete bytes mixed with symbolic data")
        else:
            if c.encoding not in ("utf-8", "ascii"):
                raise Unsupported("digest of %s-encoded symbolic text" % c.encoding)
            t = c.term
        s = t if s is None else z3.Concat(s, t)
    if s is None:
        s = z3.StringVal("")
    ctx.note("stub: hashlib.%s is the uninterpreted function %s_utf8 : String -> BitVec" % (h.alg, h.alg))
    return digest_fn(h.alg)(s)


def make_hash_ctor(alg):
    def ctor(ctx, interp, args, kwargs):
        kwargs = dict(kwargs)
        kwargs.pop("usedforsecurity", None)
        data = []
        if args:
            data.append(_as_bytes(ctx, args[0]))
        elif "data" in kwargs:
            data.append(_as_bytes(ctx, kwargs.pop("data")))
        elif "string" in kwargs:
            data.append(_as_bytes(ctx, kwargs.pop("string")))
        if kwargs:
            raise Unsupported("hash constructor keywords %s" % sorted(kwargs))
        return HashObj(alg, data)
    return ctor


# ------------------------------------------------------------------------------------
# str / repr / conversions
# ------------------------------------------------------------------------------------
def m_str(ctx, interp, v):
    from .interp import PyInstance, PyClass, PyFunc, PartialObj
    if isinstance(v, PyInstance):
        c, f = v.pyclass.lookup("__str__")
        from .interp import PyFunc as _PF
        if isinstance(f, _PF):
            return interp.call(f, [v], {})
        if any(isinstance(k, type) and issubclass(k, BaseException) for k in v.pyclass.mro if not isinstance(k, PyClass)):
            a = v.exc_args
            if len(a) == 0:
                return ""
            if len(a) == 1:
                return m_str(ctx, interp, a[0])
        cr, fr = v.pyclass.lookup("__repr__")
        if isinstance(fr, _PF):
            return interp.call(fr, [v], {})
        ctx.note("world: the default str()/repr() of an object contains its memory address")
        return SStr(z3.String(ctx.fresh_name("world:address")))
    if isinstance(v, (PyFunc, PartialObj)):
        ctx.note("world: str()/repr() of a function object contains a memory address")
        return SStr(z3.String(ctx.fresh_name("world:address")))
    if isinstance(v, PyClass):
        return "<class '%s.%s'>" % (v.ns.get("__module__"), v.name)
    if not isinstance(v, Sym) and not contains_sym(v):
        if isinstance(v, (str, int, float, bool, type(None), list, tuple, dict, bytes, enum.Enum)) or \
                _is_repo_data_object(v) or isinstance(v, BaseException):
            if isinstance(v, (list, tuple, dict)) and not _plain_data(v):
                raise Unsupported("str() of container with non-plain members")
            return str(v)
        raise Unsupported("str() of native %s" % type(v).__name__)
    return ops.py_str(ctx, v)


def _plain_data(v, depth=0):
    if depth > 8:
        return False
    if isinstance(v, (str, int, float, bool, type(None), bytes, enum.Enum)):
        return True
    if isinstance(v, (list, tuple, set, frozenset)):
        return all(_plain_data(e, depth + 1) for e in v)
    if isinstance(v, dict):
        return all(_plain_data(k, depth + 1) and _plain_data(e, depth + 1) for k, e in v.items())
    if _is_repo_data_object(v):
        return True
    return False


def _is_repo_data_object(v):
    mod = type(v).__module__ or ""
    return mod.startswith("pyab_experiment.data_structures")


def m_repr(ctx, interp, v):
    if not isinstance(v, Sym) and not contains_sym(v):
        if _plain_data(v):
            return repr(v)
        raise Unsupported("repr() of native %s" % type(v).__name__)
    return ops.py_repr(ctx, v)


def FPARSE():
    return z3.Function("py_float_parse", z3.StringSort(), z3.RealSort())


def m_int(ctx, interp, args, kwargs):
    if kwargs:
        raise Unsupported("int() keywords")
    if not args:
        return 0
    v = args[0]
    if len(args) == 2:
        base = args[1]
        if isinstance(v, SHex) and base == 16:
            return SInt(z3.BV2Int(v.term, False), bv=v.term)
        if not contains_sym(v) and not contains_sym(base):
            try:
                return int(v, base)
            except Exception as e:
                raise SymRaise(e)
        raise Unsupported("int(symbolic, base)")
    if not contains_sym(v):
        try:
            return int(v)
        except Exception as e:
            raise SymRaise(e)
    if isinstance(v, (SInt,)):
        return v
    if isinstance(v, SBool):
        return SInt(ops.int_term(v))
    if isinstance(v, SReal):
        t = v.term
        return SInt(z3.If(t >= 0, z3.ToInt(t), -z3.ToInt(-t)))
    if isinstance(v, SFP):
        t = v.term
        if ctx.branch(z3.Or(z3.fpIsNaN(t), z3.fpIsInf(t))):
            raise SymRaise(ValueError("cannot convert float NaN/infinity to integer"))
        r = z3.fpRoundToIntegral(z3.RTZ(), t)
        return SInt(z3.BV2Int(z3.fpToSBV(z3.RTZ(), r, z3.BitVecSort(72)), True))
    if isinstance(v, SStr):
        # decimal digits only (what the lexer's NON_NEG_INTEGER rule hands over);
        # anything else is outside the model
        dig = z3.InRe(v.term, z3.Plus(z3.Range("0", "9")))
        if ctx.branch(dig):
            if getattr(ctx, "opts", {}).get("int_str_limit") and ops.INT_STR_LIMIT:
                # CPython >= 3.11: int(str) refuses more than sys.get_int_max_str_digits() digits
                if ctx.branch(z3.Length(v.term) > ops.INT_STR_LIMIT):
                    raise SymRaise(ValueError("Exceeds the limit (%d digits) for integer string conversion" % ops.INT_STR_LIMIT))
            return SInt(z3.StrToInt(v.term))
        from vf.lexsym import rx as _rx
        udig = z3.InRe(v.term, z3.Plus(_rx.z3_set(_rx.category("digit"))))
        if ctx.branch(udig):
            ctx.note("stub: int() of non-ASCII decimal digits is the uninterpreted function py_int_parse")
            return SInt(z3.Function("py_int_parse", z3.StringSort(), z3.IntSort())(v.term))
        raise Unsupported("int() of a symbolic str that is not all decimal digits")
    raise Unsupported("int() of %s" % type(v).__name__)


def m_int_from_bytes(ctx, interp, args, kwargs):
    v = args[0]
    order = args[1] if len(args) > 1 else kwargs.get("byteorder", "big")
    signed = kwargs.get("signed", False)
    if not contains_sym(args) and not contains_sym(kwargs):
        try:
            return int.from_bytes(*args, **kwargs)
        except Exception as e:
            raise SymRaise(e)
    if isinstance(v, SBytesBV) and order in ("big", "little") and signed is False:
        t = v.term
        if order == "little":
            n = v.nbytes
            parts = [z3.Extract(8 * i + 7, 8 * i, t) for i in range(n)]   # least significant byte first
            t = z3.Concat(*parts) if n > 1 else parts[0]
        return SInt(z3.BV2Int(t, False), bv=t)
    raise Unsupported("int.from_bytes on %s" % type(v).__name__)


def m_float(ctx, interp, args, kwargs):
    if not args:
        return 0.0
    v = args[0]
    if not contains_sym(v):
        try:
            return float(v)
        except Exception as e:
            raise SymRaise(e)
    if isinstance(v, (SReal, SFP)):
        return v
    if isinstance(v, (SInt, SBool)):
        if ctx.float_mode == "fp":
            return SFP(ops.fp_term(v))
        return SReal(ops.real_term(v))
    if isinstance(v, SStr):
        ctx.note("stub: float(str) is the uninterpreted function py_float_parse")
        return SReal(FPARSE()(v.term))
    raise Unsupported("float() of %s" % type(v).__name__)


def m_bool(ctx, interp, args, kwargs):
    if not args:
        return False
    return ops.wrap_bool(ops.truth_term(ctx, args[0]))


def m_abs(ctx, interp, args, kwargs):
    v = args[0]
    if not contains_sym(v):
        try:
            return abs(v)
        except Exception as e:
            raise SymRaise(e)
    if isinstance(v, SInt):
        return SInt(z3.If(v.term >= 0, v.term, -v.term))
    if isinstance(v, SReal):
        return SReal(z3.If(v.term >= 0, v.term, -v.term))
    if isinstance(v, SFP):
        return SFP(z3.fpAbs(v.term))
    raise SymRaise(TypeError("bad operand type for abs(): '%s'" % pytype_of(v).__name__))


def iterate_set(ctx, s):
    """Iteration order of a set is process-local for str members (hash randomisation):
    modelled as an arbitrary permutation chosen by the 'world'."""
    items = list(s)
    if len(items) <= 1:
        return items
    if all(isinstance(e, int) and not isinstance(e, bool) and 0 <= e < 2 ** 20 for e in items):
        return sorted(items) if all(e < 8 for e in items) else _world_perm(ctx, items)
    return _world_perm(ctx, items)


def _world_perm(ctx, items):
    try:
        items = sorted(items)
    except TypeError:
        items = sorted(items, key=repr)
    perms = list(itertools.permutations(items))
    if len(perms) > 24:
        raise Unsupported("iteration over a set of %d elements (order is process-dependent)" % len(items))
    ctx.note("world: iteration order of a set chosen by the process")
    k = ctx.choose(len(perms), label="world:setorder")
    return list(perms[k])


def m_sorted(ctx, interp, args, kwargs):
    items = interp.iterate(args[0]) if not isinstance(args[0], (set, frozenset)) else list(args[0])
    key = kwargs.get("key")
    rev = kwargs.get("reverse", False)
    if key is not None and not isinstance(key, type(len)):
        # interpreted key function: compute the keys through the interpreter, then sort (stably) on concrete keys
        keys = [interp.call(key, [it], {}) for it in items]
        if contains_sym(keys):
            if len(items) <= 1:
                return ctx.alloc(list(items))
            raise Unsupported("sorted() with symbolic keys")
        try:
            order = sorted(range(len(items)), key=lambda i: keys[i], reverse=bool(rev))
        except TypeError as e:
            raise SymRaise(e)
        return ctx.alloc([items[i] for i in order])
    if contains_sym(items):
        if key is None and len(items) <= 1:
            return ctx.alloc(list(items))
        raise Unsupported("sorted() of symbolic members")
    try:
        return ctx.alloc(sorted(items, key=key, reverse=rev))
    except TypeError as e:
        raise SymRaise(e)


def m_map(ctx, interp, args, kwargs):
    fn = args[0]
    lists = [interp.iterate(a) for a in args[1:]]
    n = min(len(l) for l in lists) if lists else 0
    return ctx.alloc([interp.call(fn, [l[i] for l in lists], {}) for i in range(n)])


def m_isinstance(ctx, interp, args, kwargs):
    return interp.isinstance_(args[0], args[1])


def m_getattr(ctx, interp, args, kwargs):
    if contains_sym(args[1]):
        raise Unsupported("getattr with symbolic name")
    try:
        return interp.getattr(args[0], args[1])
    except SymRaise as e:
        if len(args) == 3 and isinstance(e.exc, AttributeError):
            return args[2]
        raise


def m_setattr(ctx, interp, args, kwargs):
    if contains_sym(args[1]):
        raise Unsupported("setattr with symbolic name")
    interp.setattr(args[0], args[1], args[2])
    return None


def m_hasattr(ctx, interp, args, kwargs):
    try:
        interp.getattr(args[0], args[1])
        return True
    except SymRaise as e:
        if isinstance(e.exc, AttributeError):
            return False
        raise


def m_print(ctx, interp, args, kwargs):
    ctx.note("stub: print() is an effect-free no-op")
    return None


def m_len(ctx, interp, args, kwargs):
    from .interp import PyInstance
    v = args[0]
    if isinstance(v, PyInstance):
        c, f = v.pyclass.lookup("__len__")
        return interp.call(f, [v], {})
    return ops.py_len(ctx, v)


def m_list(ctx, interp, args, kwargs):
    if not args:
        return ctx.alloc([])
    return ctx.alloc(list(interp.iterate(args[0])))


def m_tuple(ctx, interp, args, kwargs):
    if not args:
        return ()
    return tuple(interp.iterate(args[0]))


def m_set(ctx, interp, args, kwargs):
    if not args:
        return ctx.alloc(set())
    items = interp.iterate(args[0])
    if contains_sym(items):
        raise Unsupported("set() of symbolic members")
    try:
        return ctx.alloc(set(items))
    except TypeError as e:
        raise SymRaise(e)


def m_dict(ctx, interp, args, kwargs):
    d = {}
    if args:
        if isinstance(args[0], dict):
            d.update(args[0])
        else:
            for kv in interp.iterate(args[0]):
                k, v = interp.iterate(kv)
                d[k] = v
    d.update(kwargs)
    return ctx.alloc(d)


def m_hash(ctx, interp, args, kwargs):
    v = args[0]
    if isinstance(v, (int, bool)) and abs(v) < 2 ** 60:
        return hash(v)
    ctx.note("world: hash() of str/bytes/objects is process-local (PYTHONHASHSEED)")
    name = ctx.fresh_name("world:hash")
    return SInt(z3.Int(name))


def m_id(ctx, interp, args, kwargs):
    ctx.note("world: id() is a process-local address")
    return SInt(z3.Int(ctx.fresh_name("world:id")))


def m_type(ctx, interp, args, kwargs):
    from .interp import PyInstance
    if len(args) != 1:
        raise Unsupported("type() with 3 arguments")
    v = args[0]
    if isinstance(v, PyInstance):
        return v.pyclass
    if isinstance(v, SOpaque):
        raise Unsupported("type() of opaque value")
    return pytype_of(v)


def m_range(ctx, interp, args, kwargs):
    if contains_sym(args):
        raise Unsupported("range() with symbolic bounds")
    try:
        return range(*args)
    except Exception as e:
        raise SymRaise(e)


def m_enumerate(ctx, interp, args, kwargs):
    start = kwargs.get("start", args[1] if len(args) > 1 else 0)
    return ctx.alloc([(i + start, v) for i, v in enumerate(interp.iterate(args[0]))])


def m_zip(ctx, interp, args, kwargs):
    lists = [interp.iterate(a) for a in args]
    if kwargs.get("strict") and len({len(l) for l in lists}) > 1:
        raise SymRaise(ValueError("zip() argument lengths differ"))
    return ctx.alloc([tuple(t) for t in zip(*lists)])


def m_sum(ctx, interp, args, kwargs):
    items = interp.iterate(args[0])
    acc = args[1] if len(args) > 1 else kwargs.get("start", 0)
    for it in items:
        acc = ops.binop(ctx, ast.Add(), acc, it)
    return acc


def m_any(ctx, interp, args, kwargs):
    for it in interp.iterate(args[0]):
        if ops.truth(ctx, it):
            return True
    return False


def m_all(ctx, interp, args, kwargs):
    for it in interp.iterate(args[0]):
        if not ops.truth(ctx, it):
            return False
    return True


def _minmax(is_min):
    def f(ctx, interp, args, kwargs):
        items = interp.iterate(args[0]) if len(args) == 1 else list(args)
        if kwargs:
            raise Unsupported("min/max keywords")
        if not items:
            raise SymRaise(ValueError("arg is an empty sequence"))
        best = items[0]
        for it in items[1:]:
            c = ops.compare(ctx, ast.Lt() if is_min else ast.Gt(), it, best)
            if ops.truth(ctx, c):
                best = it
        return best
    return f


def m_property(ctx, interp, args, kwargs):
    from .interp import PyProperty
    return PyProperty(args[0])


class CachedCallable:
    """functools.lru_cache / cache: hidden state that outlives the call.  A call is modelled as a miss
    (the function runs) plus a recorded 'cache-store' effect; whether an earlier entry with an
    ==-equal key could be returned instead is the harness's question (typed=False conflates 1, 1.0, True)."""

    def __init__(self, fn, typed):
        self.fn = fn
        self.typed = typed

    def pysym_call(self, ctx, interp, args, kwargs):
        ctx.effect("cache-store", self, "typed=%s" % self.typed)
        ctx.recorded.append(("cache_call", self.typed))
        ctx.note("model: functools cache wrapper -- call modelled as a miss, store recorded as a persistent effect")
        return interp.call(self.fn, args, kwargs)

    def pysym_getattr(self, ctx, interp, name):
        if name in ("__wrapped__",):
            return self.fn
        if name in ("__name__", "__qualname__", "__doc__", "__module__", "__dict__", "__annotations__"):
            try:
                return interp.getattr(self.fn, name)
            except Exception:
                return None
        raise SymRaise(AttributeError(name))


class _CacheDecorator:
    def __init__(self, typed):
        self.typed = typed

    def pysym_call(self, ctx, interp, args, kwargs):
        return CachedCallable(args[0], self.typed)


def m_lru_cache(ctx, interp, args, kwargs):
    typed = bool(kwargs.get("typed", args[1] if len(args) > 1 else False))
    if args and not isinstance(args[0], (int, type(None))) and not kwargs:
        return CachedCallable(args[0], False)      # @lru_cache without parentheses
    return _CacheDecorator(typed)


def m_cache(ctx, interp, args, kwargs):
    return CachedCallable(args[0], False)


class _Identity:
    def pysym_call(self, ctx, interp, args, kwargs):
        return args[0]


def m_wraps(ctx, interp, args, kwargs):
    return _Identity()


def m_staticmethod(ctx, interp, args, kwargs):
    from .interp import PyStatic
    return PyStatic(args[0])


def m_exec(ctx, interp, args, kwargs):
    code = args[0]
    g = args[1] if len(args) > 1 else kwargs.get("globals")
    l = args[2] if len(args) > 2 else kwargs.get("locals")
    raise Unsupported("exec() must be dispatched by the interpreter (needs the calling scope)")


def m_compile(ctx, interp, args, kwargs):
    src = args[0]
    filename = args[1] if len(args) > 1 else kwargs.get("filename", "<string>")
    mode = args[2] if len(args) > 2 else kwargs.get("mode", "exec")
    return interp.compile_source(src, filename, mode)


def m_callable(ctx, interp, args, kwargs):
    from .interp import PyFunc, PyBoundMethod, PartialObj, PyClass, BuiltinMethod
    v = args[0]
    if isinstance(v, (PyFunc, PyBoundMethod, PartialObj, PyClass, BuiltinMethod)):
        return True
    if isinstance(v, Sym):
        return False
    return callable(v)


def m_round(ctx, interp, args, kwargs):
    if not contains_sym(args) and not contains_sym(kwargs):
        try:
            return round(*args, **kwargs)
        except Exception as e:
            raise SymRaise(e)
    if len(args) == 1 and not kwargs:
        v = args[0]
        if isinstance(v, SInt):
            return v
        if isinstance(v, SFP):
            t = v.term
            if ctx.branch(z3.Or(z3.fpIsNaN(t), z3.fpIsInf(t))):
                raise SymRaise(ValueError("cannot convert float NaN/infinity to integer"))
            r = z3.fpRoundToIntegral(z3.RNE(), t)     # round-half-even, as Python 3
            return SInt(z3.BV2Int(z3.fpToSBV(z3.RTZ(), r, z3.BitVecSort(72)), True))
        if isinstance(v, SReal):
            x = v.term
            fl = z3.ToInt(x)
            frac = x - z3.ToReal(fl)
            half = z3.RealVal("1/2")
            up = z3.Or(frac > half, z3.And(frac == half, fl % 2 == 1))
            return SInt(z3.If(up, fl + 1, fl))
    nd = args[1] if len(args) > 1 else kwargs.get("ndigits")
    if len(args) >= 1 and isinstance(args[0], SInt) and isinstance(nd, int) and not isinstance(nd, bool) and nd >= 0:
        return args[0]          # round(int, ndigits >= 0) is the int itself
    raise Unsupported("round() of symbolic value with ndigits")


def m_ord(ctx, interp, args, kwargs):
    if contains_sym(args):
        raise Unsupported("ord() of symbolic value")
    try:
        return ord(*args)
    except Exception as e:
        raise SymRaise(e)


def m_chr(ctx, interp, args, kwargs):
    if contains_sym(args):
        raise Unsupported("chr() of symbolic value")
    try:
        return chr(*args)
    except Exception as e:
        raise SymRaise(e)


def m_reversed(ctx, interp, args, kwargs):
    return ctx.alloc(list(reversed(interp.iterate(args[0]))))


# ---- functools / itertools / math ------------------------------------------------------
def m_partial(ctx, interp, args, kwargs):
    from .interp import PartialObj
    if not args:
        raise SymRaise(TypeError("type 'partial' takes at least one argument"))
    return PartialObj(args[0], args[1:], kwargs)


def m_accumulate(ctx, interp, args, kwargs):
    items = interp.iterate(args[0])
    func = args[1] if len(args) > 1 else kwargs.get("func")
    out = []
    acc = None
    first = True
    if "initial" in kwargs and kwargs["initial"] is not None:
        acc = kwargs["initial"]
        out.append(acc)
        first = False
    for it in items:
        if first:
            acc = it
            first = False
        elif func is None:
            acc = ops.binop(ctx, ast.Add(), acc, it)
        else:
            acc = interp.call(func, [acc, it], {})
        out.append(acc)
    return ctx.alloc(out)


def m_floor(ctx, interp, args, kwargs):
    v = args[0]
    if not contains_sym(v):
        try:
            return math.floor(v)
        except Exception as e:
            raise SymRaise(e)
    if isinstance(v, (SInt,)):
        return v
    if isinstance(v, SReal):
        return SInt(z3.ToInt(v.term))
    if isinstance(v, SFP):
        t = v.term
        if ctx.branch(z3.Or(z3.fpIsNaN(t), z3.fpIsInf(t))):
            raise SymRaise(ValueError("cannot convert float NaN/infinity to integer"))
        r = z3.fpRoundToIntegral(z3.RTN(), t)
        bv = z3.fpToSBV(z3.RTN(), r, z3.BitVecSort(72))
        return SInt(z3.BV2Int(bv, True), fpsrc=r)
    raise SymRaise(TypeError("must be real number, not %s" % pytype_of(v).__name__))


def m_isfinite(ctx, interp, args, kwargs):
    v = args[0]
    if not contains_sym(v):
        try:
            return math.isfinite(v)
        except Exception as e:
            raise SymRaise(e)
    if isinstance(v, (SInt, SBool, SReal)):
        return True
    if isinstance(v, SFP):
        return ops.wrap_bool(z3.Not(z3.Or(z3.fpIsNaN(v.term), z3.fpIsInf(v.term))))
    raise SymRaise(TypeError("must be real number, not %s" % pytype_of(v).__name__))


def LOG():
    return z3.Function("py_log", z3.RealSort(), z3.RealSort())


def m_log(ctx, interp, args, kwargs):
    if len(args) != 1:
        raise Unsupported("log with base")
    v = args[0]
    if not contains_sym(v):
        try:
            return math.log(v)
        except Exception as e:
            raise SymRaise(e)
    if isinstance(v, SFP):
        raise Unsupported("math.log on a bit-precise float")
    x = ops.real_term(v)
    if ctx.branch(x <= 0):
        raise SymRaise(ValueError("math domain error"))
    ctx.note("stub: math.log is the uninterpreted function py_log (axioms supplied by the harness)")
    return SReal(LOG()(x))


def m_sqrt(ctx, interp, args, kwargs):
    v = args[0]
    if not contains_sym(v):
        try:
            return math.sqrt(v)
        except Exception as e:
            raise SymRaise(e)
    x = ops.real_term(v)
    if ctx.branch(x < 0):
        raise SymRaise(ValueError("math domain error"))
    r = z3.Real(ctx.fresh_name("sqrt"))
    ctx.assume(z3.And(r >= 0, r * r == x))
    return SReal(r)


def m_bisect_right(ctx, interp, args, kwargs):
    return interp.call(interp.load_stdlib_function("bisect", "bisect_right"), args, kwargs)


def m_bisect_left(ctx, interp, args, kwargs):
    return interp.call(interp.load_stdlib_function("bisect", "bisect_left"), args, kwargs)


class RandomSelf:
    """`self` of random.Random.choices: random() returns a fresh value in [0,1) on the
    2^-53 grid (CPython's documented construction)."""

    def pysym_getattr(self, ctx, interp, name):
        if name == "random":
            return _RandomRandom()
        raise Unsupported("Random.%s" % name)


class _RandomRandom:
    def pysym_call(self, ctx, interp, args, kwargs):
        ctx.note("stub: random.random() returns an arbitrary j/2^53, 0 <= j < 2^53")
        if ctx.float_mode == "fp":
            j = z3.BitVec(ctx.fresh_name("world:random_j"), 53)
            x = z3.fpDiv(RNE, z3.fpUnsignedToFP(RNE, j, FP64), fp_const(float(2 ** 53)))
            return SFP(x)
        j = z3.Int(ctx.fresh_name("world:random_j"))
        ctx.assume(z3.And(j >= 0, j < 2 ** 53))
        return SReal(z3.ToReal(j) / z3.RealVal(2 ** 53))


def m_random_choices(ctx, interp, args, kwargs):
    f = interp.load_stdlib_function("random", "Random.choices")
    return interp.call(f, [RandomSelf()] + list(args), kwargs)


def m_repeat(ctx, interp, args, kwargs):
    if len(args) < 2 or contains_sym(args[1]):
        raise Unsupported("unbounded / symbolic itertools.repeat")
    return ctx.alloc([args[0]] * args[1])


def world_value(kind):
    def f(ctx, interp, args, kwargs):
        ctx.note("world: %s is process/time dependent" % kind)
        name = ctx.fresh_name("world:" + kind)
        if kind in ("time", "random"):
            return SReal(z3.Real(name)) if ctx.float_mode != "fp" else SFP(z3.FP(name, FP64))
        if kind in ("cwd", "env", "locale", "uuid", "hostname"):
            return SStr(z3.String(name))
        return SInt(z3.Int(name))
    return f


def m_fsencode(ctx, interp, args, kwargs):
    """os.fsencode(str): bytes in the PROCESS's filesystem encoding (locale / UTF-8 mode at start-up).  Modelled as an
    uninterpreted function of a world-indexed configuration value and the string, equal to the UTF-8 encoding on ASCII
    text (every filesystem encoding CPython supports is ASCII-compatible); a str subject raising for unencodable text is
    outside the model."""
    v = args[0]
    if isinstance(v, (bytes, SBytes, SBytesBV)):
        return v
    if not isinstance(v, (str, SStr)):
        raise SymRaise(TypeError("expected str, bytes or os.PathLike object, not %s" % pytype_of(v).__name__))
    ctx.note("world: os.fsencode depends on the process's filesystem encoding")
    memo = ctx.__dict__.setdefault("_fsenc_world", None)
    if memo is None:
        memo = z3.Int(ctx.fresh_name("world:fsencoding"))
        ctx.__dict__["_fsenc_world"] = memo
    f = z3.Function("py_fsencode", z3.IntSort(), z3.StringSort(), z3.StringSort())
    st = ops.str_term(v)
    out = f(memo, st)
    ascii_ = z3.InRe(st, z3.Star(z3.Range(chr(0), chr(127))))
    ctx.assume(z3.Implies(ascii_, out == st))
    return SBytes(out, "utf-8")


def m_format_str(ctx, interp, args, kwargs):
    """black.format_str: formatting preserves the AST of its input (black's own safety
    contract); modelled as the identity on the concrete text it is given."""
    src = args[0]
    if not isinstance(src, str):
        raise Unsupported("black.format_str of symbolic text")
    import black
    ctx.note("native: black.format_str executed concretely on concrete text")
    try:
        return black.format_str(src, mode=kwargs.get("mode") or black.FileMode())
    except Exception as e:
        raise SymRaise(e)


def _native_table():
    import black
    import os
    import time
    import locale
    import uuid
    import socket
    import getpass
    import secrets
    import threading
    t = {
        len: m_len, str: lambda c, i, a, k: (m_str(c, i, a[0]) if a else ""),
        repr: lambda c, i, a, k: m_repr(c, i, a[0]),
        int: m_int, float: m_float, bool: m_bool, abs: m_abs, sorted: m_sorted, map: m_map,
        isinstance: m_isinstance, getattr: m_getattr, setattr: m_setattr, hasattr: m_hasattr,
        print: m_print, list: m_list, tuple: m_tuple, set: m_set, dict: m_dict, hash: m_hash,
        id: m_id, type: m_type, range: m_range, enumerate: m_enumerate, zip: m_zip, sum: m_sum,
        any: m_any, all: m_all, min: _minmax(True), max: _minmax(False), property: m_property,
        compile: m_compile, callable: m_callable, staticmethod: m_staticmethod, int.from_bytes: m_int_from_bytes, round: m_round, ord: m_ord, chr: m_chr,
        reversed: m_reversed, frozenset: m_set,
        functools.partial: m_partial, functools.lru_cache: m_lru_cache, functools.cache: m_cache, functools.wraps: m_wraps, itertools.accumulate: m_accumulate, itertools.repeat: m_repeat,
        math.floor: m_floor, math.isfinite: m_isfinite, math.log: m_log, math.sqrt: m_sqrt, math.isclose: m_isclose,
        _bisect_mod.bisect: m_bisect_right, _bisect_mod.bisect_right: m_bisect_right,
        _bisect_mod.bisect_left: m_bisect_left,
        _random_mod.choices: m_random_choices,
        black.format_str: m_format_str,
        black.FileMode: lambda c, i, a, k: black.FileMode(*a, **k),
        os.getpid: world_value("pid"), os.getcwd: world_value("cwd"), os.getenv: world_value("env"),
        os.urandom: world_value("random"),
        time.time: world_value("time"), time.time_ns: world_value("time"),
        time.monotonic: world_value("time"), time.perf_counter: world_value("time"),
        _random_mod.random: world_value("random"), _random_mod.randint: world_value("random"),
        _random_mod.getrandbits: world_value("random"), _random_mod.randrange: world_value("random"),
        _random_mod.uniform: world_value("random"),
        locale.getlocale: world_value("locale"), locale.getpreferredencoding: world_value("locale"),
        locale.format_string: world_value("locale"), locale.str: world_value("locale"), locale.currency: world_value("locale"),
        locale.localeconv: world_value("locale"), locale.setlocale: world_value("locale"),
        os.getppid: world_value("pid"), os.getuid: world_value("pid"), os.times: world_value("time"),
        uuid.uuid4: world_value("uuid"), uuid.uuid1: world_value("uuid"),
        socket.gethostname: world_value("hostname"), getpass.getuser: world_value("env"),
        secrets.token_hex: world_value("uuid"), secrets.randbelow: world_value("random"),
        threading.get_ident: world_value("pid"),
    }
    import unicodedata
    t[unicodedata.normalize] = m_unicode_normalize
    import struct as _struct
    import operator as _operator
    import sys as _sys
    t[_struct.Struct] = m_struct_ctor
    t[_struct.unpack] = lambda c, i, a, k: struct_unpack(c, a[0], a[1], 0, exact=True)
    t[_struct.unpack_from] = lambda c, i, a, k: struct_unpack(c, a[0], a[1], a[2] if len(a) > 2 else k.get("offset", 0))
    t[math.ldexp] = m_ldexp
    t[math.pow] = lambda c, i, a, k: _sym_or_native(c, math.pow, a, lambda: ops.binop(c, _ast.Pow(), _as_float(c, a[0]), _as_float(c, a[1])))
    t[pow] = lambda c, i, a, k: _sym_or_native(c, pow, a, lambda: ops.binop(c, _ast.Pow(), a[0], a[1])) if len(a) == 2 else _unsup("three-argument pow")
    t[math.fabs] = lambda c, i, a, k: _sym_or_native(c, math.fabs, a, lambda: m_abs(c, i, [_as_float(c, a[0])], {}))
    t[math.isnan] = lambda c, i, a, k: _sym_or_native(c, math.isnan, a, lambda: (ops.wrap_bool(z3.fpIsNaN(a[0].term)) if isinstance(a[0], SFP) else False))
    t[math.isinf] = lambda c, i, a, k: _sym_or_native(c, math.isinf, a, lambda: (ops.wrap_bool(z3.fpIsInf(a[0].term)) if isinstance(a[0], SFP) else False))
    for _n, _op in (("add", _ast.Add), ("sub", _ast.Sub), ("mul", _ast.Mult), ("truediv", _ast.Div), ("floordiv", _ast.FloorDiv),
                    ("mod", _ast.Mod)):
        t[getattr(_operator, _n)] = (lambda op_: lambda c, i, a, k: ops.binop(c, op_(), a[0], a[1]))(_op)
    for _n, _op in (("lt", _ast.Lt), ("le", _ast.LtE), ("gt", _ast.Gt), ("ge", _ast.GtE), ("eq", _ast.Eq), ("ne", _ast.NotEq)):
        t[getattr(_operator, _n)] = (lambda op_: lambda c, i, a, k: ops.compare(c, op_(), a[0], a[1]))(_op)
    # text <-> bytes conversions that depend on the process (locale / filesystem encoding): world-indexed values
    t[os.fsencode] = m_fsencode
    t[os.fsdecode] = world_value("locale")
    t[_sys.getfilesystemencoding] = world_value("locale")
    t[_sys.getdefaultencoding] = lambda c, i, a, k: "utf-8"
    import re as _re
    t[_re.sub] = m_re_sub
    t[_re.split] = m_re_split
    for alg in DIGEST_BITS:
        f = getattr(hashlib, alg, None)
        if f is not None:
            t[f] = make_hash_ctor(alg)
    return t


_NATIVE = None


def native_table():
    global _NATIVE
    if _NATIVE is None:
        _NATIVE = _native_table()
    return _NATIVE


def m_isclose(ctx, interp, args, kwargs):
    a, b = args[0], args[1]
    rel = kwargs.get("rel_tol", 1e-09)
    ab = kwargs.get("abs_tol", 0.0)
    if not contains_sym([a, b, rel, ab]):
        return math.isclose(a, b, rel_tol=rel, abs_tol=ab)
    if contains_sym([rel, ab]):
        raise Unsupported("math.isclose with symbolic tolerances")
    if ctx.float_mode == "fp":
        x, y = ops.fp_term(a), ops.fp_term(b)
        diff = z3.fpAbs(z3.fpSub(RNE, x, y))
        big = z3.fpMax(z3.fpAbs(x), z3.fpAbs(y))
        tol = z3.fpMax(z3.fpMul(RNE, fp_const(float(rel)), big), fp_const(float(ab)))
        finite = z3.Not(z3.Or(z3.fpIsNaN(x), z3.fpIsNaN(y), z3.fpIsInf(x), z3.fpIsInf(y)))
        return ops.wrap_bool(z3.Or(z3.fpEQ(x, y), z3.And(finite, z3.fpLEQ(diff, tol))))
    x, y = ops.real_term(a), ops.real_term(b)
    absx = z3.If(x >= 0, x, -x)
    absy = z3.If(y >= 0, y, -y)
    d = z3.If(x - y >= 0, x - y, y - x)
    big = z3.If(absx >= absy, absx, absy)
    r, t = ops.real_term(float(rel)), ops.real_term(float(ab))
    tol = z3.If(r * big >= t, r * big, t)
    return ops.wrap_bool(d <= tol)


import ast as _ast


def _unsup(msg):
    raise Unsupported(msg)


def _sym_or_native(ctx, fn, args, symbolic):
    if not contains_sym(args):
        try:
            return fn(*args)
        except Exception as e:
            raise SymRaise(e)
    return symbolic()


def _as_float(ctx, v):
    if isinstance(v, (SInt, SBool)) or (isinstance(v, int) and not isinstance(v, float)):
        return m_float(ctx, None, [v], {})
    return v


class StructObj:
    """struct.Struct(fmt) for the single-integer formats digests are read with"""

    def __init__(self, fmt):
        self.fmt = fmt

    def pysym_getattr(self, ctx, interp, name):
        if name in ("unpack", "unpack_from"):
            return _StructMeth(self, name)
        if name == "size":
            import struct as _s
            return _s.calcsize(self.fmt)
        if name == "format":
            return self.fmt
        raise SymRaise(AttributeError(name))


class _StructMeth:
    def __init__(self, st, name):
        self.st, self.name = st, name

    def pysym_call(self, ctx, interp, args, kwargs):
        off = 0
        if self.name == "unpack_from":
            off = args[1] if len(args) > 1 else kwargs.get("offset", 0)
        return struct_unpack(ctx, self.st.fmt, args[0], off, exact=(self.name == "unpack"))


def m_struct_ctor(ctx, interp, args, kwargs):
    if contains_sym(args) or not isinstance(args[0], (str, bytes)):
        raise Unsupported("struct.Struct with a symbolic format")
    return StructObj(args[0] if isinstance(args[0], str) else args[0].decode())


def struct_unpack(ctx, fmt, data, offset=0, exact=False):
    """struct.unpack / unpack_from for single unsigned-integer formats on digest bytes"""
    import struct as _s
    if isinstance(fmt, bytes):
        fmt = fmt.decode()
    if not contains_sym(data) and not contains_sym(offset):
        try:
            return _s.unpack_from(fmt, data, offset) if not exact else _s.unpack(fmt, data)
        except Exception as e:
            raise SymRaise(e)
    if not isinstance(data, SBytesBV) or contains_sym(offset) or not isinstance(fmt, str):
        raise Unsupported("struct.unpack of %s" % type(data).__name__)
    order, body = (fmt[0], fmt[1:]) if fmt[:1] in "<>!=@" else ("@", fmt)
    sizes = {"B": 1, "H": 2, "I": 4, "L": 4 if order in "<>!=" else _s.calcsize("L"), "Q": 8}
    if len(body) != 1 or body not in sizes:
        raise Unsupported("struct format %r" % fmt)
    n = sizes[body]
    total = data.nbytes
    if offset < 0 or offset + n > total or (exact and total != n):
        raise SymRaise(_s.error("unpack requires a buffer of %d bytes" % n))
    if order in "=@":
        import sys as _sys
        ctx.note("world: struct native byte order (%s-endian on this host)" % _sys.byteorder)
        little = _sys.byteorder == "little"
    else:
        little = order == "<"
    t = z3.Extract(8 * (total - offset) - 1, 8 * (total - offset - n), data.term)
    if little:
        parts = [z3.Extract(8 * i + 7, 8 * i, t) for i in range(n)]
        t = z3.Concat(*parts) if n > 1 else parts[0]
    return (SInt(z3.BV2Int(t, False), bv=t),)


def m_ldexp(ctx, interp, args, kwargs):
    x, e = args[0], args[1]
    if not contains_sym(args):
        try:
            return math.ldexp(x, e)
        except Exception as ex:
            raise SymRaise(ex)
    if contains_sym(e) or isinstance(e, bool) or not isinstance(e, int) or abs(e) > 1000:
        raise Unsupported("ldexp with a symbolic or huge exponent")
    if ctx.float_mode == "fp":
        xt = ops.fp_term(x)
        return SFP(z3.fpMul(RNE, xt, fp_const(math.ldexp(1.0, e))))      # exact unless the result over/underflows
    xr = ops.real_term(x)
    return SReal(xr * (z3.RealVal(2) ** e if e >= 0 else 1 / z3.RealVal(2 ** (-e))))


def _pure_natives():
    """pure functions of the standard library that may be called natively on CONCRETE arguments"""
    import operator
    out = set()
    for mod in (math, operator):
        for n in dir(mod):
            f = getattr(mod, n)
            if callable(f) and not n.startswith("_"):
                out.add(f)
    return out


_PURE = None


def call_native(ctx, interp, fn, args, kwargs):
    global _PURE
    tbl = native_table()
    try:
        model = tbl.get(fn)
    except TypeError:
        model = None
    if model is not None:
        return model(ctx, interp, args, kwargs)
    if fn is exec:
        raise Unsupported("exec() reached call_native")
    if fn is hashlib.new:
        alg = args[0]
        if isinstance(alg, str) and alg in DIGEST_BITS:
            return make_hash_ctor(alg)(ctx, interp, args[1:], kwargs)
        raise Unsupported("hashlib.new(%r)" % (alg,))
    if isinstance(fn, type) and issubclass(fn, BaseException):
        if contains_sym(args) or contains_sym(kwargs):
            inst = fn.__new__(fn)
            try:
                inst.args = tuple(args)
            except Exception:
                pass
            return inst
        try:
            return fn(*args, **kwargs)
        except Exception as e:
            raise SymRaise(e)
    if isinstance(fn, type) and issubclass(fn, tuple) and hasattr(fn, "_fields") and fn in interp.native_ok:
        try:
            return fn(*args, **kwargs)       # a record: a container, its members may be symbolic
        except TypeError as e:
            raise SymRaise(e)
    if isinstance(fn, type) and _is_repo_data_class(fn):
        if contains_sym(args) or contains_sym(kwargs):
            if hasattr(fn, "construct"):
                ctx.note("model: pydantic model built without validation (construct) for symbolic fields")
                return fn.construct(**kwargs)
            raise Unsupported("native class with symbolic args")
        try:
            return fn(*args, **kwargs)
        except Exception as e:
            raise SymRaise(e)
    if _PURE is None:
        _PURE = _pure_natives()
    try:
        pure = fn in _PURE
    except TypeError:
        pure = False
    if pure and not contains_sym(args) and not contains_sym(kwargs):
        try:
            return fn(*args, **kwargs)
        except Exception as e:
            raise SymRaise(e)
    if fn in interp.native_ok and not contains_sym(args) and not contains_sym(kwargs):
        try:
            return fn(*args, **kwargs)
        except Exception as e:
            raise SymRaise(e)
    ov = interp.call_overrides.get(_qualname(fn))
    if ov is not None:
        return ov(ctx, interp, args, kwargs)
    raise Unsupported("call to unmodelled native %s" % _qualname(fn))


def _qualname(fn):
    mod = getattr(fn, "__module__", None) or getattr(getattr(fn, "__self__", None), "__module__", "") or ""
    if not isinstance(mod, str):
        mod = ""
    return "%s.%s" % (mod, getattr(fn, "__qualname__", getattr(fn, "__name__", repr(type(fn)))))


def _is_repo_data_class(cls):
    return (getattr(cls, "__module__", "") or "").startswith("pyab_experiment.")


class WorldMapping:
    """os.environ and friends: every read is a process-local value"""

    def __init__(self, kind):
        self.kind = kind

    def pysym_getattr(self, ctx, interp, name):
        if name in ("get", "__getitem__", "setdefault", "pop"):
            return _WorldCall(self.kind)
        if name in ("keys", "values", "items", "copy"):
            raise Unsupported("iteration over %s (process-dependent)" % self.kind)
        raise SymRaise(AttributeError(name))

    def pysym_getitem(self, ctx, idx):
        ctx.note("world: %s is process dependent" % self.kind)
        return SStr(z3.String(ctx.fresh_name("world:" + self.kind)))


class _WorldCall:
    def __init__(self, kind):
        self.kind = kind

    def pysym_call(self, ctx, interp, args, kwargs):
        ctx.note("world: %s is process dependent" % self.kind)
        return SStr(z3.String(ctx.fresh_name("world:" + self.kind)))


def native_getattr(ctx, interp, obj, name):
    import os as _os
    import sys as _sys
    if obj is _os and name == "environ":
        return WorldMapping("env")
    if obj is _sys and name in ("argv", "path", "flags", "executable"):
        ctx.note("world: sys.%s is process dependent" % name)
        return SStr(z3.String(ctx.fresh_name("world:sys")))
    if isinstance(obj, types.ModuleType):
        try:
            return getattr(obj, name)
        except AttributeError as e:
            raise SymRaise(e)
    if isinstance(obj, type):
        try:
            return getattr(obj, name)
        except AttributeError as e:
            raise SymRaise(e)
    if isinstance(obj, enum.Enum) or _is_repo_data_object(obj) or isinstance(obj, BaseException) \
            or type(obj).__module__.startswith("pyab_experiment."):
        try:
            v = getattr(obj, name)
        except AttributeError as e:
            raise SymRaise(e)
        if isinstance(v, types.MethodType):
            raise Unsupported("bound native method %s.%s" % (type(obj).__name__, name))
        return v
    raise Unsupported("attribute '%s' of native %s" % (name, type(obj).__name__))


# ------------------------------------------------------------------------------------
# methods of builtin types
# ------------------------------------------------------------------------------------
def LOWER():
    return z3.Function("py_str_lower", z3.StringSort(), z3.StringSort())


def call_method(ctx, interp, obj, name, args, kwargs):
    if name == "__getitem__" and len(args) == 1 and not kwargs:
        return ops.getitem(ctx, obj, args[0])
    if name == "__len__" and not args:
        return ops.py_len(ctx, obj)
    if name == "__contains__" and len(args) == 1:
        return ops.wrap_bool(ops.contains_term(ctx, args[0], obj))
    if name == "__eq__" and len(args) == 1:
        return ops.wrap_bool(ops.eq_term(ctx, obj, args[0]))
    if isinstance(obj, SNorm):
        if name == "lower" and not args:
            return SNorm(obj.term, True, obj.strip)
        if name == "strip" and not args:
            return SNorm(obj.term, obj.lower, True)
        if name in ("casefold",) and not args:
            raise Unsupported("str.casefold on a symbolic str")
        raise Unsupported("str.%s on a normalised symbolic str" % name)
    if isinstance(obj, (str, SStr)):
        return str_method(ctx, interp, obj, name, args, kwargs)
    if isinstance(obj, list):
        return list_method(ctx, interp, obj, name, args, kwargs)
    if isinstance(obj, (dict, set)):
        return container_method(ctx, interp, obj, name, args, kwargs)
    if isinstance(obj, (tuple, frozenset, bytes, int, float, bool)):
        if contains_sym(obj) or contains_sym(args):
            if isinstance(obj, tuple) and name in ("index", "count"):
                raise Unsupported("tuple.%s with symbolic members" % name)
            raise Unsupported("%s.%s with symbolic values" % (type(obj).__name__, name))
        try:
            return getattr(obj, name)(*args, **kwargs)
        except Exception as e:
            raise SymRaise(e)
    if isinstance(obj, SBytes):
        if name == "decode":
            return SStr(obj.term)
        raise Unsupported("bytes.%s on symbolic bytes" % name)
    if isinstance(obj, SHex):
        if name in ("lower",):
            return obj
        raise Unsupported("str.%s on digest abstraction" % name)
    if isinstance(obj, (SReal, SFP, SInt)):
        if name == "is_integer" and isinstance(obj, SReal):
            return ops.wrap_bool(z3.IsInt(obj.term))
        raise Unsupported("%s.%s" % (obj.pytype.__name__, name))
    raise Unsupported("method %s of %s" % (name, type(obj).__name__))


def str_method(ctx, interp, s, name, args, kwargs):
    sym = contains_sym(s) or contains_sym(args) or contains_sym(kwargs)
    if not sym and name == "format":
        try:
            return s.format(*args, **kwargs)
        except Exception as e:
            raise SymRaise(e)
    if not sym:
        if name == "join":
            args = [interp.iterate(args[0])]
            for e in args[0]:
                if not isinstance(e, str):
                    raise SymRaise(TypeError("sequence item: expected str instance, %s found"
                                             % pytype_of(e).__name__))
        if name == "encode":
            pass
        try:
            return getattr(s, name)(*args, **kwargs)
        except Exception as e:
            raise SymRaise(e)
    if name == "join" and args and isinstance(args[0], SStrList):
        ctx.note("stub: sep.join(pieces) of an uninterpreted split is an uninterpreted function py_join(sep, pieces)")
        f = z3.Function("py_join", z3.StringSort(), Obj, z3.StringSort())
        return SStr(f(ops.str_term(s), args[0].term))
    if name == "join":
        items = interp.iterate(args[0])
        out = ""
        for i, it in enumerate(items):
            if not ops.is_strlike(it):
                raise SymRaise(TypeError("sequence item %d: expected str instance, %s found"
                                         % (i, pytype_of(it).__name__)))
            if i:
                out = ops.str_concat(out, s)
            out = ops.str_concat(out, it)
        return out
    if name == "encode":
        enc = args[0] if args else kwargs.get("encoding", "utf-8")
        errors = args[1] if len(args) > 1 else kwargs.get("errors", "strict")
        if not isinstance(enc, str) or errors != "strict":
            raise Unsupported("encode(%r, %r)" % (enc, errors))
        e = enc.lower().replace("_", "-")
        if e in ("utf8", "utf-8"):
            ctx.note("model: str.encode('utf-8') is total (strings range over Unicode scalar values; "
                     "lone surrogates outside the model)")
            return SBytes(s.term, "utf-8")
        if e in ("ascii", "us-ascii"):
            ok = z3.InRe(s.term, z3.Star(z3.Range(chr(0), chr(127))))
            if ctx.branch(ok):
                return SBytes(s.term, "ascii")
            raise SymRaise(UnicodeEncodeError("ascii", "?", 0, 1, "ordinal not in range(128)"))
        if e in ("latin-1", "latin1", "iso-8859-1"):
            ok = z3.InRe(s.term, z3.Star(z3.Range(chr(0), chr(255))))
            if ctx.branch(ok):
                return SBytes(s.term, "latin-1")
            raise SymRaise(UnicodeEncodeError("latin-1", "?", 0, 1, "ordinal not in range(256)"))
        raise Unsupported("encoding %s" % enc)
    if name == "lower" and isinstance(s, SStr) and not args:
        ctx.note("model: str.lower() / str.strip() of a symbolic str are kept as a normal-form wrapper; comparisons with "
                 "constants become regular constraints on the original string (letter classes computed from CPython)")
        return SNorm(s.term, lower=True)
    if name == "strip" and isinstance(s, SStr) and not args:
        ctx.note("model: str.lower() / str.strip() of a symbolic str are kept as a normal-form wrapper; comparisons with "
                 "constants become regular constraints on the original string (letter classes computed from CPython)")
        return SNorm(s.term, strip=True)
    if name in ("startswith", "endswith") and len(args) == 1 and ops.is_strlike(args[0]):
        f = z3.PrefixOf if name == "startswith" else z3.SuffixOf
        return ops.wrap_bool(f(ops.str_term(args[0]), ops.str_term(s)))
    if name == "strip" and not args:
        raise Unsupported("str.strip on symbolic str")
    if name == "__len__":
        return ops.py_len(ctx, s)
    if name in ("format", "format_map"):
        return str_format(ctx, interp, s, name, args, kwargs)
    if name == "isascii" and isinstance(s, SStr) and not args:
        return ops.wrap_bool(z3.InRe(s.term, z3.Star(z3.Range(chr(0), chr(127)))))
    if isinstance(s, SStr) and name in _PURE_STR_TO_STR and not contains_sym(args) and not kwargs:
        # a pure str -> str method without a precise model: an uninterpreted function of the receiver (one symbol per
        # method and constant arguments).  Over-approximates the method, so `unsat` verdicts stay valid; a `sat` verdict
        # has to be confirmed by the replay (which may need to search for a string on which the method is not the identity)
        ctx.note("stub: str.%s is an uninterpreted function of its receiver" % name)
        f = z3.Function("py_str_%s_%s" % (name, common_hash(args)), z3.StringSort(), z3.StringSort())
        return SStr(f(s.term))
    if isinstance(s, SStr) and name in _PURE_STR_TO_LIST and not contains_sym(args) and not contains_sym(kwargs):
        ctx.note("stub: str.%s is an uninterpreted function of its receiver (its result can only be joined again)" % name)
        f = z3.Function("py_str_%s_%s" % (name, common_hash(list(args) + sorted(kwargs.items()))), z3.StringSort(), Obj)
        return SStrList(f(s.term))
    if isinstance(s, SStr) and name in _PURE_STR_TO_BOOL and not args:
        ctx.note("stub: str.%s is an uninterpreted predicate" % name)
        f = z3.Function("py_str_%s" % name, z3.StringSort(), z3.BoolSort())
        return ops.wrap_bool(f(s.term))
    if name == "count" and len(args) == 1 and isinstance(args[0], str) and isinstance(s, SStr):
        ctx.note("stub: str.count returns an arbitrary non-negative int")
        n = z3.Int(ctx.fresh_name("count"))
        ctx.assume(n >= 0)
        return SInt(n)
    if name == "replace" and len(args) == 2:
        raise Unsupported("str.replace on symbolic str")
    raise Unsupported("str.%s with symbolic values" % name)


def str_format(ctx, interp, s, name, args, kwargs):
    """str.format: a CONCRETE template with symbolic arguments is substituted field by field; a SYMBOLIC string used as
    the template means its contents are interpreted as replacement fields (recorded; the result is an arbitrary string)."""
    import string as _string
    if name == "format_map":
        kwargs = dict(args[0]) if args and isinstance(args[0], dict) else {}
        args = []
    if isinstance(s, SStr):
        ctx.note("format-template: a symbolic string is used as a str.format template (its braces are interpreted)")
        return SStr(z3.String(ctx.fresh_name("formatted")))
    out = ""
    auto = 0
    try:
        parsed = list(_string.Formatter().parse(s))
    except ValueError as e:
        raise SymRaise(e)
    for literal, field, spec, conv in parsed:
        out = ops.str_concat(out, literal)
        if field is None:
            continue
        if spec or (conv not in (None, "s", "r")):
            raise Unsupported("str.format with a format spec / conversion on symbolic arguments")
        if field == "":
            key = auto
            auto += 1
        elif field.isdigit():
            key = int(field)
        else:
            key = field
        if isinstance(key, str) and not key.isidentifier():
            raise Unsupported("str.format with attribute / index lookups")
        try:
            v = args[key] if isinstance(key, int) else kwargs[key]
        except (IndexError, KeyError) as e:
            raise SymRaise(e)
        piece = m_repr(ctx, interp, v) if conv == "r" else m_str(ctx, interp, v)
        out = ops.str_concat(out, piece)
    return out


_PURE_STR_TO_STR = {"upper", "casefold", "title", "capitalize", "swapcase", "lstrip", "rstrip", "strip", "replace", "zfill",
                    "ljust", "rjust", "center", "expandtabs", "removeprefix", "removesuffix"}
_PURE_STR_TO_LIST = {"split", "rsplit", "splitlines"}
_PURE_STR_TO_BOOL = {"isdigit", "isalpha", "isalnum", "isdecimal", "isnumeric", "isspace", "islower", "isupper", "istitle",
                     "isidentifier", "isprintable"}


def common_hash(args):
    import hashlib as _h
    return _h.sha1(repr(tuple(args)).encode()).hexdigest()[:8]


def m_unicode_normalize(ctx, interp, args, kwargs):
    form, v = args[0], args[1]
    if not contains_sym(args):
        import unicodedata
        try:
            return unicodedata.normalize(form, v)
        except Exception as e:
            raise SymRaise(e)
    if not isinstance(form, str) or not isinstance(v, SStr):
        raise Unsupported("unicodedata.normalize with symbolic form")
    ctx.note("stub: unicodedata.normalize(%s, .) is an uninterpreted function" % form)
    return SStr(z3.Function("py_unicode_normalize_%s" % form, z3.StringSort(), z3.StringSort())(v.term))


def m_re_sub(ctx, interp, args, kwargs):
    if not contains_sym(args) and not contains_sym(kwargs):
        import re as _re
        try:
            return _re.sub(*args, **kwargs)
        except Exception as e:
            raise SymRaise(e)
    if len(args) >= 3 and isinstance(args[0], str) and isinstance(args[1], str) and isinstance(args[2], SStr) \
            and not contains_sym(args[3:]) and not contains_sym(kwargs):
        ctx.note("stub: re.sub(constant pattern, constant replacement, .) is an uninterpreted function of the string")
        f = z3.Function("py_re_sub_%s" % common_hash(list(args[:2]) + list(args[3:]) + sorted(kwargs.items())),
                        z3.StringSort(), z3.StringSort())
        return SStr(f(args[2].term))
    raise Unsupported("re.sub with symbolic pattern / replacement")


def m_re_split(ctx, interp, args, kwargs):
    if not contains_sym(args) and not contains_sym(kwargs):
        import re as _re
        try:
            return _re.split(*args, **kwargs)
        except Exception as e:
            raise SymRaise(e)
    if len(args) >= 2 and isinstance(args[0], str) and isinstance(args[1], SStr) and not contains_sym(args[2:]) \
            and not contains_sym(kwargs):
        ctx.note("stub: re.split(constant pattern, .) is an uninterpreted function of the string")
        f = z3.Function("py_re_split_%s" % common_hash([args[0]] + list(args[2:]) + sorted(kwargs.items())),
                        z3.StringSort(), Obj)
        return SStrList(f(args[1].term))
    raise Unsupported("re.split with symbolic pattern")


_LIST_MUTATORS = {"append", "extend", "insert", "pop", "remove", "clear", "sort", "reverse", "__setitem__",
                  "__delitem__", "__iadd__"}


def list_method(ctx, interp, lst, name, args, kwargs):
    if name in _LIST_MUTATORS and not ctx.is_local(lst):
        ctx.effect("list-mutation", lst, name)
    if name == "append":
        lst.append(args[0])
        return None
    if name == "extend":
        lst.extend(interp.iterate(args[0]))
        return None
    if name == "insert":
        if contains_sym(args[0]):
            raise Unsupported("list.insert at symbolic position")
        lst.insert(args[0], args[1])
        return None
    if name == "pop":
        if contains_sym(args):
            raise Unsupported("list.pop at symbolic position")
        try:
            return lst.pop(*args)
        except IndexError as e:
            raise SymRaise(e)
    if name == "clear":
        lst.clear()
        return None
    if name == "reverse":
        lst.reverse()
        return None
    if name == "copy":
        return ctx.alloc(list(lst))
    if name == "sort":
        if kwargs.get("key") is not None and not isinstance(kwargs.get("key"), type(len)):
            res = m_sorted(ctx, interp, [list(lst)], kwargs)
            lst[:] = res
            return None
        if contains_sym(lst) or kwargs.get("key") is not None:
            raise Unsupported("list.sort with symbolic members / key")
        try:
            lst.sort(**kwargs)
        except TypeError as e:
            raise SymRaise(e)
        return None
    if name in ("index", "count", "remove"):
        if contains_sym(lst) or contains_sym(args):
            raise Unsupported("list.%s with symbolic members" % name)
        try:
            return getattr(lst, name)(*args)
        except ValueError as e:
            raise SymRaise(e)
    raise Unsupported("list.%s" % name)


# ---- dicts with symbolic keys: a side table of (key, value) entries per dict object ------------------
_MISSING_ = object()


def _symtable(ctx, d):
    tbl = ctx.__dict__.setdefault("symdicts", {})
    ent = tbl.get(id(d))
    if ent is None:
        ent = tbl[id(d)] = (d, [])
    return ent[1]


def symdict_lookup(ctx, interp, d, key):
    """value stored under a (possibly symbolic) key, or _MISSING_; forks on key equalities"""
    entries = _symtable(ctx, d)
    for k, v in reversed(entries):
        t = ops.eq_term(ctx, key, k)
        if t is True or (t is not False and ctx.branch(t)):
            return v
    if contains_sym(key):
        for k in list(d.keys()):
            try:
                t = ops.eq_term(ctx, key, k)
            except Unsupported:
                continue
            if t is True or (t is not False and ctx.branch(t)):
                return d[k]
        return _MISSING_
    try:
        return d[key] if key in d else _MISSING_
    except TypeError as e:
        raise SymRaise(e)


def symdict_set(ctx, interp, d, key, value):
    if not ctx.is_local(d):
        ctx.effect("item-store", d, "<symbolic key>")
    entries = _symtable(ctx, d)
    for ent_i, (k, v) in enumerate(entries):
        t = ops.eq_term(ctx, key, k)
        if t is True or (t is not False and ctx.branch(t)):
            entries[ent_i] = (k, value)
            return None
    entries.append((key, value))
    return None


def has_symentries(ctx, d):
    tbl = ctx.__dict__.get("symdicts", {})
    return id(d) in tbl and bool(tbl[id(d)][1])


def container_method(ctx, interp, obj, name, args, kwargs):
    if isinstance(obj, dict) and name in ("get", "__getitem__", "setdefault", "__contains__") and args and \
            (contains_sym(args[0]) or has_symentries(ctx, obj)):
        v = symdict_lookup(ctx, interp, obj, args[0])
        if name == "__contains__":
            return v is not _MISSING_
        if v is not _MISSING_:
            return v
        if name == "get":
            return args[1] if len(args) > 1 else None
        if name == "setdefault":
            symdict_set(ctx, interp, obj, args[0], args[1] if len(args) > 1 else None)
            return args[1] if len(args) > 1 else None
        raise SymRaise(KeyError("<symbolic key>"))
    mutators = {"add", "update", "discard", "remove", "pop", "clear", "setdefault", "popitem"}
    if name in mutators and not ctx.is_local(obj):
        ctx.effect("container-mutation", obj, name)
    if isinstance(obj, set):
        if name in ("add", "discard", "remove"):
            if contains_sym(args):
                raise Unsupported("set.%s of a symbolic value" % name)
            try:
                getattr(obj, name)(*args)
            except (KeyError, TypeError) as e:
                raise SymRaise(e)
            return None
        if name == "update":
            for a in args:
                for it in interp.iterate(a):
                    if contains_sym(it):
                        raise Unsupported("set.update with symbolic value")
                    obj.add(it)
            return None
        if name == "copy":
            return ctx.alloc(set(obj))
        if name in ("union", "intersection", "difference"):
            others = [set(interp.iterate(a)) if not isinstance(a, (set, frozenset)) else a for a in args]
            return ctx.alloc(getattr(obj, name)(*others))
        raise Unsupported("set.%s" % name)
    # dict
    if name == "get":
        if contains_sym(args[0]):
            raise Unsupported("dict.get with symbolic key")
        return obj.get(*args)
    if name in ("keys", "values", "items"):
        return ctx.alloc(list(getattr(obj, name)()))
    if name == "update":
        for a in args:
            if not isinstance(a, dict):
                raise Unsupported("dict.update with non-dict")
            obj.update(a)
        obj.update(kwargs)
        return None
    if name == "pop":
        if contains_sym(args[0]):
            raise Unsupported("dict.pop with symbolic key")
        try:
            return obj.pop(*args)
        except KeyError as e:
            raise SymRaise(e)
    if name == "setdefault":
        return obj.setdefault(*args)
    if name == "copy":
        return ctx.alloc(dict(obj))
    if name == "clear":
        obj.clear()
        return None
    raise Unsupported("dict.%s" % name)
