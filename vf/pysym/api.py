"""Convenience entry points over the interpreter/explorer."""
from __future__ import annotations

import hashlib
import z3

from .explore import explore, Return, Raise, Unsup, PathResult, SymRaise
from .interp import Interp, ModuleEnv, Scope, PyFunc
from .values import *  # noqa


class Run:
    """Result of exploring one entry point."""

    def __init__(self, paths, stats, encoded, notes):
        self.paths = paths
        self.stats = stats
        self.encoded = encoded
        self.notes = notes

    @property
    def unsupported(self):
        return [p for p in self.paths if isinstance(p.outcome, Unsup)]

    def encoded_digest(self):
        return {k: hashlib.sha256(v.encode()).hexdigest()[:16] for k, v in sorted(self.encoded.items())}


def run(entry, opts=None, assumptions=(), policy=None, setup=None, max_paths=20000):
    """entry(interp) -> value.  A fresh Interp (fresh module environments) per path keeps
    paths independent of each other."""
    encoded = {}
    notes = set()

    def thunk(ctx):
        it = Interp(ctx, policy=policy)
        if setup is not None:
            setup(it)
        try:
            return entry(it)
        finally:
            encoded.update(it.encoded_functions)
            notes.update(ctx.notes)

    paths, stats = explore(thunk, opts=opts, assumptions=assumptions, max_paths=max_paths)
    for p in paths:
        notes.update(p.notes)
    return Run(paths, stats, encoded, sorted(notes))


def call_module_function(modname, fname, args=(), kwargs=None):
    def entry(it):
        env = it.import_module(modname)
        fn = env.vars[fname] if isinstance(env, ModuleEnv) else getattr(env, fname)
        it.ctx.begin_call()
        return it.call(fn, list(args), dict(kwargs or {}))
    return entry


def exec_text_and_call(text, fname, args=(), kwargs=None, globals_module=None, same_namespace=False):
    """exec `text` the way ExperimentEvaluator.recompile does (globals = globals_module's
    namespace, locals = a fresh dict) or as a stand-alone module (same_namespace=True), then
    call `fname` from the resulting namespace."""
    def entry(it):
        if same_namespace:
            env = ModuleEnv("<generated>")
            g = env.vars
            l = g
        else:
            env = it.import_module(globals_module)
            g = env.vars
            l = {}
        it.exec_code(it.compile_source(text), g, l, owner=env)
        if fname not in l:
            raise SymRaise(KeyError(fname))
        a = args(it) if callable(args) else args
        k = kwargs(it) if callable(kwargs) else kwargs
        it.ctx.begin_call()
        return it.call(l[fname], list(a), dict(k or {}))
    return entry
