"""Path exploration by re-execution (decision-prefix DFS).

`explore(thunk)` runs `thunk(ctx)` repeatedly.  Every time the interpreted code
branches on a symbolic condition, `ctx.branch(cond)` either follows the recorded
decision prefix or opens a new decision point (both sides checked for feasibility with
z3 when pruning is on).  The result is the list of explored paths with their path
condition, outcome and recorded effects.
"""
from __future__ import annotations

import time
import z3

from .values import Unsupported, Sym


class Infeasible(Exception):
    pass


class PathLimit(Exception):
    pass


class SymRaise(BaseException):
    """A Python exception raised by the interpreted program."""

    def __init__(self, exc, cause=None):
        self.exc = exc
        self.cause = cause


class Outcome:
    kind = "?"


class Return(Outcome):
    kind = "return"

    def __init__(self, value):
        self.value = value

    def __repr__(self):
        return "Return(%s)" % show(self.value)


class Raise(Outcome):
    kind = "raise"

    def __init__(self, exc):
        self.exc = exc  # a real exception instance, or a PyInstance

    @property
    def exc_name(self):
        cls = getattr(self.exc, "pyclass", None)
        if cls is not None:
            return cls.name
        return type(self.exc).__name__

    def __repr__(self):
        return "Raise(%s)" % self.exc_name


class Unsup(Outcome):
    kind = "unsupported"

    def __init__(self, reason):
        self.reason = reason

    def __repr__(self):
        return "Unsupported(%s)" % self.reason


def show(v):
    if isinstance(v, Sym):
        return v.show()
    if isinstance(v, list):
        return "[" + ", ".join(show(e) for e in v) + "]"
    if isinstance(v, tuple):
        return "(" + ", ".join(show(e) for e in v) + ("," if len(v) == 1 else "") + ")"
    if isinstance(v, dict):
        return "{" + ", ".join("%s: %s" % (show(k), show(e)) for k, e in v.items()) + "}"
    try:
        return repr(v)
    except Unsupported:
        return "<%s>" % type(v).__name__


class PathResult:
    def __init__(self, conds, outcome, effects, decisions, notes, obligations, recorded=None):
        self.recorded = recorded or []
        self.conds = conds
        self.outcome = outcome
        self.effects = effects
        self.decisions = decisions
        self.notes = notes
        self.obligations = obligations

    @property
    def pc(self):
        return z3.And(*self.conds) if self.conds else z3.BoolVal(True)

    def __repr__(self):
        return "<path %s | %s | effects=%d>" % (
            [str(c) for c in self.conds], self.outcome, len(self.effects))


class Stats:
    def __init__(self):
        self.solver_calls = 0
        self.solver_time = 0.0
        self.unknown = 0
        self.paths = 0


class Ctx:
    """Per-path execution context."""

    def __init__(self, prefix, opts, stats, assumptions):
        self.prefix = prefix
        self.pos = 0
        self.taken = []
        self.conds = list(assumptions)
        self.n_assumptions = len(assumptions)
        self.alternatives = []
        self.effects = []
        self.notes = []
        self.obligations = []  # (description, z3 bool) to be discharged by the harness
        self.recorded = []     # (tag, value) pairs recorded by harness stubs
        self.opts = opts
        self.stats = stats
        self.counter = 0
        self.local_objs = []      # objects allocated during this run (kept alive)
        self.local_ids = set()
        self.float_mode = opts.get("float_mode", "real")
        self.prune = opts.get("prune", True)
        self.world_vars = []
        self._solver = None

    # ---- naming -----------------------------------------------------------------
    def fresh_name(self, base):
        self.counter += 1
        return "%s%s!%d" % (base, self.opts.get("tag", ""), self.counter)

    # ---- allocation tracking ----------------------------------------------------
    def alloc(self, obj):
        self.local_objs.append(obj)
        self.local_ids.add(id(obj))
        return obj

    def is_local(self, obj):
        return id(obj) in self.local_ids

    def begin_call(self):
        """Everything allocated so far (module import, class bodies, harness set-up) pre-exists the call under
        analysis: a later write to it is a persistent effect."""
        self.local_ids = set()

    def effect(self, kind, target, detail=None):
        self.effects.append((kind, target, detail))

    def note(self, text):
        self.notes.append(text)

    # ---- solver -----------------------------------------------------------------
    def _check(self, extra):
        s = z3.Solver()
        s.set("timeout", self.opts.get("prune_timeout_ms", 10000))
        for c in self.conds:
            s.add(c)
        s.add(extra)
        t0 = time.time()
        r = s.check()
        self.stats.solver_calls += 1
        self.stats.solver_time += time.time() - t0
        if r == z3.unknown:
            self.stats.unknown += 1
        return r

    def assume(self, cond):
        self.conds.append(cond)

    def branch(self, cond) -> bool:
        """Decide a symbolic condition; forks the exploration."""
        if isinstance(cond, bool):
            return cond
        cond = z3.simplify(cond)
        if z3.is_true(cond):
            return True
        if z3.is_false(cond):
            return False
        if self.pos < len(self.prefix):
            d = self.prefix[self.pos]
            self.pos += 1
            self.taken.append(d)
            self.conds.append(cond if d else z3.Not(cond))
            return d
        # new decision point
        if self.prune:
            rt = self._check(cond)
            rf = self._check(z3.Not(cond))
            t_ok = rt != z3.unsat
            f_ok = rf != z3.unsat
        else:
            t_ok = f_ok = True
        if not t_ok and not f_ok:
            raise Infeasible()
        if t_ok and f_ok:
            self.alternatives.append(self.taken + [False])
            d = True
        else:
            d = t_ok
        self.pos += 1
        self.taken.append(d)
        self.conds.append(cond if d else z3.Not(cond))
        if len(self.taken) > self.opts.get("max_decisions", 4000):
            raise PathLimit("more than %d decisions on one path" % len(self.taken))
        return d

    def choose(self, n, label="choice"):
        """Fork over the integers 0..n-1 without a solver condition (angelic enumeration
        of a finite structural choice); recorded as decisions in binary."""
        # encoded as a sequence of unconstrained boolean decisions
        lo, hi = 0, n - 1
        while lo < hi:
            mid = (lo + hi) // 2
            b = z3.Bool(self.fresh_name(label))
            if self.branch(b):
                hi = mid
            else:
                lo = mid + 1
        return lo


def explore(thunk, opts=None, assumptions=(), max_paths=20000):
    """Run thunk(ctx) over all feasible paths.  Returns (paths, stats)."""
    opts = dict(opts or {})
    stats = Stats()
    stack = [[]]
    paths = []
    while stack:
        prefix = stack.pop()
        ctx = Ctx(prefix, opts, stats, assumptions)
        try:
            val = thunk(ctx)
            outcome = Return(val)
        except SymRaise as e:
            outcome = Raise(e.exc)
        except Unsupported as u:
            outcome = Unsup(str(u))
        except Infeasible:
            stack.extend(ctx.alternatives)
            continue
        except RecursionError:
            outcome = Unsup("interpreter recursion limit")
        stack.extend(ctx.alternatives)
        paths.append(PathResult(ctx.conds, outcome, ctx.effects, ctx.taken, ctx.notes,
                                ctx.obligations, ctx.recorded))
        stats.paths += 1
        if len(paths) > max_paths:
            raise PathLimit("more than %d paths" % max_paths)
    return paths, stats
