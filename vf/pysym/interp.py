"""pysym interpreter: executes a Python subset from its `ast`, forking on symbolic branches.

Faithfulness rules:
  * anything outside the subset raises `Unsupported` (never guessed);
  * exceptions of the interpreted program are `SymRaise`; any other Python exception that
    escapes this module is a bug of the harness and is not caught;
  * real (native) callables are only invoked when they are on an explicit whitelist and
    all their arguments are concrete.
"""
from __future__ import annotations

import ast
import builtins as _builtins
import importlib
import importlib.util
import inspect
import sys
import types

import z3

from . import ops
from .explore import SymRaise
from .values import (Sym, SBool, SInt, SReal, SFP, SStr, SBytes, SHex, SOpaque, Unsupported, SNorm,
                     contains_sym, pytype_of)


# ------------------------------------------------------------------------------------
# runtime object model
# ------------------------------------------------------------------------------------
class _Signal(BaseException):
    pass


class ReturnSignal(_Signal):
    def __init__(self, value):
        self.value = value


class BreakSignal(_Signal):
    pass


class ContinueSignal(_Signal):
    pass


class Cell:
    __slots__ = ("value", "bound")

    def __init__(self):
        self.bound = False
        self.value = None


class Scope:
    """kind: 'function' | 'module' | 'class'."""

    def __init__(self, kind, vars, globals_, closure=None, local_names=None, owner=None):
        self.kind = kind
        self.vars = vars
        self.globals = globals_
        self.closure = closure          # enclosing function Scope (for free variables)
        self.local_names = local_names  # set of names local to a function scope
        self.global_decl = set()
        self.nonlocal_decl = set()
        self.owner = owner              # ModuleEnv owning globals (for effect reports)
        self.class_cell = None


class ModuleEnv:
    def __init__(self, name, file=None):
        self.name = name
        self.file = file
        self.vars = {"__name__": name}
        self.source = None

    def __repr__(self):
        return "<pysym module %s>" % self.name


class PyFunc:
    def __init__(self, node, name, globals_, closure, defaults, kw_defaults, module, qualname=None):
        self.node = node
        self.name = name
        self.globals = globals_
        self.closure = closure
        self.defaults = defaults
        self.kw_defaults = kw_defaults
        self.module = module
        self.qualname = qualname or name
        self.defining_class = None

    def __repr__(self):
        return "<pysym function %s>" % self.qualname


class PyClass:
    def __init__(self, name, bases, ns, module):
        self.name = name
        self.bases = bases
        self.ns = ns
        self.module = module
        self.mro = self._mro()

    def _mro(self):
        out = [self]
        for b in self.bases:
            if isinstance(b, PyClass):
                for c in b.mro:
                    if c not in out:
                        out.append(c)
            else:
                for c in getattr(b, "__mro__", (b,)):
                    if c not in out:
                        out.append(c)
        return out

    def lookup(self, name):
        for c in self.mro:
            if isinstance(c, PyClass):
                if name in c.ns:
                    return c, c.ns[name]
            else:
                if name in vars(c):
                    return c, vars(c)[name]
        return None, _MISSING

    def is_subclass_of(self, other):
        return other in self.mro

    def __repr__(self):
        return "<pysym class %s>" % self.name


class PyInstance:
    def __init__(self, pyclass):
        self.pyclass = pyclass
        self.attrs = {}
        self.exc_args = ()

    def __repr__(self):
        return "<pysym instance of %s>" % self.pyclass.name


class PyBoundMethod:
    def __init__(self, func, self_obj):
        self.func = func
        self.self_obj = self_obj


class PyStatic:
    def __init__(self, fn):
        self.fn = fn


class PyProperty:
    def __init__(self, fget):
        self.fget = fget


class BuiltinMethod:
    """obj.name for a value whose methods are modelled (str, list, ...)."""

    def __init__(self, obj, name):
        self.obj = obj
        self.name = name


class PartialObj:
    def __init__(self, fn, args, kwargs):
        self.fn = fn
        self.args = tuple(args)
        self.kwargs = dict(kwargs)

    def pysym_eq(self, ctx, other):
        return self is other


class CodeObj:
    def __init__(self, tree, source, filename, mode):
        self.tree = tree
        self.source = source
        self.filename = filename
        self.mode = mode


class SuperProxy:
    def __init__(self, cls, obj):
        self.cls = cls
        self.obj = obj


_MISSING = object()


# ------------------------------------------------------------------------------------
# local-name analysis
# ------------------------------------------------------------------------------------
class _LocalCollector(ast.NodeVisitor):
    def __init__(self):
        self.names = set()
        self.globals = set()
        self.nonlocals = set()

    def visit_Name(self, node):
        if isinstance(node.ctx, (ast.Store, ast.Del)):
            self.names.add(node.id)

    def visit_FunctionDef(self, node):
        self.names.add(node.name)  # do not descend

    visit_AsyncFunctionDef = visit_FunctionDef

    def visit_ClassDef(self, node):
        self.names.add(node.name)

    def visit_Lambda(self, node):
        pass

    def visit_ListComp(self, node):
        # comprehension targets are scoped to the comprehension; first iterable evaluated
        # in the enclosing scope (no stores there)
        pass

    visit_SetComp = visit_DictComp = visit_GeneratorExp = visit_ListComp

    def visit_Import(self, node):
        for a in node.names:
            self.names.add((a.asname or a.name).split(".")[0])

    def visit_ImportFrom(self, node):
        for a in node.names:
            self.names.add(a.asname or a.name)

    def visit_Global(self, node):
        self.globals.update(node.names)

    def visit_Nonlocal(self, node):
        self.nonlocals.update(node.names)

    def visit_ExceptHandler(self, node):
        if node.name:
            self.names.add(node.name)
        self.generic_visit(node)

    def visit_MatchAs(self, node):
        if node.name:
            self.names.add(node.name)
        self.generic_visit(node)

    def visit_MatchStar(self, node):
        if node.name:
            self.names.add(node.name)

    def visit_MatchMapping(self, node):
        if node.rest:
            self.names.add(node.rest)
        self.generic_visit(node)

    def visit_NamedExpr(self, node):
        if isinstance(node.target, ast.Name):
            self.names.add(node.target.id)
        self.generic_visit(node)


def function_locals(node):
    c = _LocalCollector()
    args = node.args
    for a in args.posonlyargs + args.args + args.kwonlyargs:
        c.names.add(a.arg)
    if args.vararg:
        c.names.add(args.vararg.arg)
    if args.kwarg:
        c.names.add(args.kwarg.arg)
    body = node.body if isinstance(node.body, list) else [node.body]
    for st in body:
        c.visit(st)
    return (c.names - c.globals - c.nonlocals), c.globals, c.nonlocals


# ------------------------------------------------------------------------------------
# interpreter
# ------------------------------------------------------------------------------------
class Interp:
    def __init__(self, ctx, policy=None, repo_src=None):
        from . import models
        self.ctx = ctx
        self.models = models
        self.policy = dict(policy or {})
        self.repo_src = repo_src
        self.modules = {}
        self.call_depth = 0
        self.call_overrides = {}   # qualified name -> model(ctx, interp, args, kwargs)
        self.native_ok = set(models.SAFE_NATIVE)
        self.encoded_functions = {}  # qualname -> source (what was actually interpreted)
        self.trace_calls = []

    # ---- modules --------------------------------------------------------------------
    def module_source(self, modname):
        spec = importlib.util.find_spec(modname)
        if spec is None or not spec.origin or not spec.origin.endswith(".py"):
            raise Unsupported("no Python source for module %s" % modname)
        with open(spec.origin, "r", encoding="utf-8") as fh:
            return fh.read(), spec.origin

    def load_module(self, modname):
        if modname in self.modules:
            return self.modules[modname]
        src, path = self.module_source(modname)
        env = ModuleEnv(modname, path)
        env.source = src
        self.modules[modname] = env
        tree = ast.parse(src, filename=path)
        scope = Scope("module", env.vars, env.vars, owner=env)
        self.exec_body(tree.body, scope)
        return env

    def load_stdlib_function(self, modname, qualname):
        """A function of a standard-library module interpreted from its .py source (e.g.
        bisect.bisect_right, random.Random.choices); its globals are the real module's."""
        key = (modname, qualname)
        cache = self.__dict__.setdefault("_stdlib_cache", {})
        if key in cache:
            return cache[key]
        src, path = self.module_source(modname)
        tree = ast.parse(src, filename=path)
        body = tree.body
        node = None
        parts = qualname.split(".")
        for i, part in enumerate(parts):
            found = None
            for st in body:
                if isinstance(st, (ast.FunctionDef, ast.ClassDef)) and st.name == part:
                    found = st
                    break
            if found is None:
                raise Unsupported("no source for %s.%s" % (modname, qualname))
            node = found
            body = getattr(found, "body", [])
        if not isinstance(node, ast.FunctionDef):
            raise Unsupported("%s.%s is not a function" % (modname, qualname))
        real = importlib.import_module(modname)
        g = dict(vars(real))
        env = ModuleEnv(modname, path)
        env.vars = g
        scope = Scope("module", g, g, owner=env)
        fn = self.make_function(node, scope)
        fn.qualname = "%s.%s" % (modname, qualname)
        cache[key] = fn
        return fn

    def module_policy(self, modname):
        """'interpret' | 'native' | None (unsupported)."""
        for pat, pol in self.policy.items():
            if modname == pat or (pat.endswith(".*") and modname.startswith(pat[:-2])):
                return pol
        return self.models.DEFAULT_MODULE_POLICY(modname)

    def import_module(self, modname):
        pol = self.module_policy(modname)
        if pol == "interpret":
            return self.load_module(modname)
        if pol == "native":
            return importlib.import_module(modname)
        raise Unsupported("import of unmodelled module %s" % modname)

    # ---- scopes ---------------------------------------------------------------------
    def load_name(self, name, scope):
        s = scope
        if s.kind == "function":
            if name in s.global_decl:
                return self._load_global(name, s)
            if name in s.local_names and name not in s.nonlocal_decl:
                if name in s.vars:
                    return s.vars[name]
                raise SymRaise(UnboundLocalError(
                    "cannot access local variable '%s' where it is not associated with a value" % name))
            c = s.closure
            while c is not None:
                if c.kind == "function" and name in c.local_names and name not in c.global_decl:
                    if name in c.vars:
                        return c.vars[name]
                    raise SymRaise(NameError(
                        "cannot access free variable '%s' where it is not associated with a value "
                        "in enclosing scope" % name))
                c = c.closure
            return self._load_global(name, s)
        # module / class scope: own dict, then globals
        if name in s.vars:
            return s.vars[name]
        if s.kind == "class":
            c = s.closure
            while c is not None:
                if c.kind == "function" and name in c.local_names:
                    if name in c.vars:
                        return c.vars[name]
                c = c.closure
        return self._load_global(name, s)

    def _load_global(self, name, scope):
        if name in scope.globals:
            return scope.globals[name]
        if name in self.models.BUILTIN_NAMES:
            return getattr(_builtins, name)
        if hasattr(_builtins, name):
            raise Unsupported("builtin '%s' is not modelled" % name)
        raise SymRaise(NameError("name '%s' is not defined" % name))

    def store_name(self, name, value, scope):
        s = scope
        if s.kind == "function":
            if name in s.global_decl:
                self._store_global(name, value, s)
                return
            if name in s.nonlocal_decl:
                c = s.closure
                while c is not None:
                    if c.kind == "function" and name in c.local_names:
                        c.vars[name] = value
                        return
                    c = c.closure
                raise Unsupported("nonlocal target not found")
            s.vars[name] = value
            return
        s.vars[name] = value

    def _store_global(self, name, value, scope):
        self.ctx.effect("global-store", name, None)
        scope.globals[name] = value

    # ---- statements -----------------------------------------------------------------
    def exec_body(self, body, scope):
        for st in body:
            self.exec_stmt(st, scope)

    def exec_stmt(self, node, scope):
        m = getattr(self, "s_" + type(node).__name__, None)
        if m is None:
            raise Unsupported("statement %s" % type(node).__name__)
        return m(node, scope)

    def s_Expr(self, node, scope):
        self.eval(node.value, scope)

    def s_Pass(self, node, scope):
        pass

    def s_Return(self, node, scope):
        raise ReturnSignal(self.eval(node.value, scope) if node.value is not None else None)

    def s_Break(self, node, scope):
        raise BreakSignal()

    def s_Continue(self, node, scope):
        raise ContinueSignal()

    def s_Global(self, node, scope):
        scope.global_decl.update(node.names)

    def s_Nonlocal(self, node, scope):
        scope.nonlocal_decl.update(node.names)

    def s_Assign(self, node, scope):
        v = self.eval(node.value, scope)
        for t in node.targets:
            self.assign(t, v, scope)

    def s_AnnAssign(self, node, scope):
        if node.value is not None:
            self.assign(node.target, self.eval(node.value, scope), scope)

    def s_AugAssign(self, node, scope):
        t = node.target
        if isinstance(t, ast.Name):
            cur = self.load_name(t.id, scope)
            new = self.aug(node.op, cur, self.eval(node.value, scope))
            self.store_name(t.id, new, scope)
        elif isinstance(t, ast.Attribute):
            obj = self.eval(t.value, scope)
            cur = self.getattr(obj, t.attr)
            new = self.aug(node.op, cur, self.eval(node.value, scope))
            self.setattr(obj, t.attr, new)
        elif isinstance(t, ast.Subscript):
            obj = self.eval(t.value, scope)
            idx = self.eval_index(t.slice, scope)
            cur = ops.getitem(self.ctx, obj, idx)
            new = self.aug(node.op, cur, self.eval(node.value, scope))
            self.setitem(obj, idx, new)
        else:
            raise Unsupported("augmented assignment target")

    def aug(self, op, cur, val):
        if isinstance(cur, list) and isinstance(op, ast.Add):
            # list += iterable mutates in place
            self.models.list_method(self.ctx, self, cur, "extend", [val], {})
            return cur
        if isinstance(cur, (set, dict)):
            raise Unsupported("augmented assignment on set/dict")
        return ops.binop(self.ctx, op, cur, val)

    def assign(self, target, value, scope):
        if isinstance(target, ast.Name):
            self.store_name(target.id, value, scope)
        elif isinstance(target, ast.Attribute):
            self.setattr(self.eval(target.value, scope), target.attr, value)
        elif isinstance(target, ast.Subscript):
            self.setitem(self.eval(target.value, scope), self.eval_index(target.slice, scope), value)
        elif isinstance(target, (ast.Tuple, ast.List)):
            items = self.iterate(value)
            star = [i for i, e in enumerate(target.elts) if isinstance(e, ast.Starred)]
            if star:
                i = star[0]
                n_after = len(target.elts) - i - 1
                if len(items) < len(target.elts) - 1:
                    raise SymRaise(ValueError("not enough values to unpack"))
                for e, v in zip(target.elts[:i], items[:i]):
                    self.assign(e, v, scope)
                self.assign(target.elts[i].value, self.ctx.alloc(list(items[i:len(items) - n_after])), scope)
                for e, v in zip(target.elts[i + 1:], items[len(items) - n_after:]):
                    self.assign(e, v, scope)
            else:
                if len(items) != len(target.elts):
                    raise SymRaise(ValueError("too many values to unpack" if len(items) > len(target.elts)
                                              else "not enough values to unpack"))
                for e, v in zip(target.elts, items):
                    self.assign(e, v, scope)
        else:
            raise Unsupported("assignment target %s" % type(target).__name__)

    def s_Delete(self, node, scope):
        for t in node.targets:
            if isinstance(t, ast.Name):
                if t.id in scope.vars:
                    del scope.vars[t.id]
                else:
                    raise SymRaise(NameError("name '%s' is not defined" % t.id))
            else:
                raise Unsupported("del of non-name")

    def s_If(self, node, scope):
        if ops.truth(self.ctx, self.eval(node.test, scope)):
            self.exec_body(node.body, scope)
        else:
            self.exec_body(node.orelse, scope)

    def s_While(self, node, scope):
        n = 0
        while ops.truth(self.ctx, self.eval(node.test, scope)):
            n += 1
            if n > self.ctx.opts.get("max_loop", 10000):
                raise Unsupported("loop bound exceeded (unwinding assertion)")
            try:
                self.exec_body(node.body, scope)
            except BreakSignal:
                return
            except ContinueSignal:
                continue
        self.exec_body(node.orelse, scope)

    def s_For(self, node, scope):
        items = self.iterate(self.eval(node.iter, scope))
        for it in items:
            self.assign(node.target, it, scope)
            try:
                self.exec_body(node.body, scope)
            except BreakSignal:
                return
            except ContinueSignal:
                continue
        self.exec_body(node.orelse, scope)

    def s_Raise(self, node, scope):
        if node.exc is None:
            cur = getattr(scope, "_handling", None)
            s = scope
            while cur is None and s is not None:
                cur = getattr(s, "_handling", None)
                s = s.closure
            if cur is None:
                raise SymRaise(RuntimeError("No active exception to reraise"))
            raise SymRaise(cur)
        exc = self.eval(node.exc, scope)
        if isinstance(exc, PyClass) or (isinstance(exc, type) and issubclass(exc, BaseException)):
            exc = self.call(exc, [], {})
        if isinstance(exc, PyInstance):
            if not any((not isinstance(c, PyClass)) and isinstance(c, type) and issubclass(c, BaseException)
                       for c in exc.pyclass.mro):
                raise SymRaise(TypeError("exceptions must derive from BaseException"))
            raise SymRaise(exc)
        if isinstance(exc, BaseException):
            raise SymRaise(exc)
        raise SymRaise(TypeError("exceptions must derive from BaseException"))

    def exc_matches(self, exc, handler_type):
        if isinstance(handler_type, tuple):
            return any(self.exc_matches(exc, h) for h in handler_type)
        if isinstance(exc, PyInstance):
            return handler_type in exc.pyclass.mro
        if isinstance(handler_type, PyClass):
            return False
        if isinstance(handler_type, type):
            return isinstance(exc, handler_type)
        raise Unsupported("except clause type")

    def s_Try(self, node, scope):
        try:
            try:
                self.exec_body(node.body, scope)
            except SymRaise as e:
                for h in node.handlers:
                    if h.type is None or self.exc_matches(e.exc, self.eval(h.type, scope)):
                        if h.name:
                            self.store_name(h.name, e.exc, scope)
                        prev = getattr(scope, "_handling", None)
                        scope._handling = e.exc
                        try:
                            self.exec_body(h.body, scope)
                        finally:
                            scope._handling = prev
                        break
                else:
                    raise
            else:
                self.exec_body(node.orelse, scope)
        finally:
            if node.finalbody:
                self.exec_body(node.finalbody, scope)

    def s_Assert(self, node, scope):
        if not ops.truth(self.ctx, self.eval(node.test, scope)):
            # a FAILING assert: under `python -O` / PYTHONOPTIMIZE the statement does not exist.  Both interpreters are
            # explored; the optimised one is a world the path remembers (replays of its witnesses run with -O)
            if self.ctx.choose(2, label="failing assert: 0 = default interpreter, 1 = python -O") == 1:
                self.ctx.note("world: an assert statement that fails is skipped under python -O")
                self.ctx.recorded.append(("python-O", True))
                return
            raise SymRaise(AssertionError())

    def s_Import(self, node, scope):
        for a in node.names:
            mod = self.import_module(a.name)
            if a.asname:
                self.store_name(a.asname, mod, scope)
            else:
                top = a.name.split(".")[0]
                self.store_name(top, self.import_module(top) if top != a.name else mod, scope)

    def s_ImportFrom(self, node, scope):
        if node.level:
            raise Unsupported("relative import")
        mod = self.import_module(node.module)
        for a in node.names:
            if a.name == "*":
                raise Unsupported("import *")
            if isinstance(mod, ModuleEnv):
                if a.name in mod.vars:
                    v = mod.vars[a.name]
                else:
                    # submodule?
                    try:
                        v = self.import_module(node.module + "." + a.name)
                    except Unsupported:
                        raise SymRaise(ImportError("cannot import name '%s' from '%s'" % (a.name, node.module)))
            else:
                try:
                    v = getattr(mod, a.name)
                except AttributeError:
                    raise SymRaise(ImportError("cannot import name '%s' from '%s'" % (a.name, node.module)))
            self.store_name(a.asname or a.name, v, scope)

    def s_FunctionDef(self, node, scope):
        fn = self.make_function(node, scope)
        for dec in reversed(node.decorator_list):
            fn = self.call(self.eval(dec, scope), [fn], {})
        self.store_name(node.name, fn, scope)

    def make_function(self, node, scope, name=None):
        defaults = [self.eval(d, scope) for d in node.args.defaults]
        kw_defaults = [None if d is None else self.eval(d, scope) for d in node.args.kw_defaults]
        closure = scope if scope.kind == "function" else (scope.closure if scope.kind == "class" else None)
        mod = scope.owner
        fn = PyFunc(node, name or getattr(node, "name", "<lambda>"), scope.globals, closure,
                    defaults, kw_defaults, mod)
        fn.kw_default_present = [d is not None for d in node.args.kw_defaults]
        fn.owner = scope.owner
        return fn

    def s_ClassDef(self, node, scope):
        if node.keywords:
            raise Unsupported("class keywords / metaclass")
        bases = [self.eval(b, scope) for b in node.bases]
        import typing as _typing
        if len(bases) == 1 and bases[0] is _typing.NamedTuple:
            # a plain record type: built natively from its field names (annotations are not evaluated); instances are
            # ordinary tuples that may hold symbolic members
            fields, defaults = [], {}
            for st in node.body:
                if isinstance(st, ast.AnnAssign) and isinstance(st.target, ast.Name):
                    fields.append(st.target.id)
                    if st.value is not None:
                        defaults[st.target.id] = self.eval(st.value, scope)
                elif isinstance(st, ast.Expr) and isinstance(st.value, ast.Constant):
                    continue
                elif isinstance(st, ast.Pass):
                    continue
                else:
                    raise Unsupported("NamedTuple class with methods")
            import collections as _collections
            cls = _collections.namedtuple(node.name, fields, defaults=[defaults[f] for f in fields if f in defaults] or None,
                                          module=scope.globals.get("__name__") or "<interpreted>")
            self.ctx.note("model: typing.NamedTuple class %s built natively as collections.namedtuple" % node.name)
            self.native_ok.add(cls)
            self.store_name(node.name, cls, scope)
            return
        for b in bases:
            if not isinstance(b, (PyClass, type)):
                raise Unsupported("class base %r" % (b,))
            if isinstance(b, type) and b not in self.models.SAFE_BASES and not issubclass(b, BaseException):
                raise Unsupported("interpreted class deriving from native %s" % b.__name__)
        ns = {}
        cscope = Scope("class", ns, scope.globals, closure=scope if scope.kind == "function" else scope.closure,
                       owner=scope.owner)
        ns["__module__"] = scope.globals.get("__name__")
        ns["__qualname__"] = node.name
        self.exec_body(node.body, cscope)
        cls = PyClass(node.name, bases or [object], ns, scope.owner)
        for v in ns.values():
            if isinstance(v, PyFunc):
                v.defining_class = cls
                v.qualname = "%s.%s" % (node.name, v.name)
            elif isinstance(v, PyProperty) and isinstance(v.fget, PyFunc):
                v.fget.defining_class = cls
                v.fget.qualname = "%s.%s" % (node.name, v.fget.name)
        for dec in reversed(node.decorator_list):
            cls = self.call(self.eval(dec, scope), [cls], {})
        self.store_name(node.name, cls, scope)

    # ---- match ------------------------------------------------------------------------
    def s_Match(self, node, scope):
        subject = self.eval(node.subject, scope)
        for case in node.cases:
            binds = {}
            if self.match_pattern(case.pattern, subject, scope, binds):
                for k, v in binds.items():
                    self.store_name(k, v, scope)
                if case.guard is not None and not ops.truth(self.ctx, self.eval(case.guard, scope)):
                    continue
                self.exec_body(case.body, scope)
                return

    def isinstance_(self, v, cls):
        if isinstance(cls, tuple):
            return any(self.isinstance_(v, c) for c in cls)
        if isinstance(v, PyInstance):
            return cls in v.pyclass.mro
        if isinstance(cls, PyClass):
            return False
        if not isinstance(cls, type):
            raise SymRaise(TypeError("isinstance() arg 2 must be a type, a tuple of types, or a union"))
        if getattr(v, "pysym_pytype", None) is not None:
            return issubclass(v.pysym_pytype, cls)
        if isinstance(v, Sym):
            if isinstance(v, SOpaque):
                raise Unsupported("isinstance on opaque value")
            return issubclass(v.pytype, cls)
        if isinstance(v, (PyFunc, PyBoundMethod, PartialObj, PyClass, BuiltinMethod)):
            if cls is object:
                return True
            raise Unsupported("isinstance on interpreted callable")
        return isinstance(v, cls)

    def match_pattern(self, pat, subject, scope, binds):
        if isinstance(pat, ast.MatchValue):
            val = self.eval(pat.value, scope)
            return ops.truth(self.ctx, ops.compare(self.ctx, ast.Eq(), subject, val))
        if isinstance(pat, ast.MatchSingleton):
            return subject is pat.value
        if isinstance(pat, ast.MatchAs):
            if pat.pattern is not None and not self.match_pattern(pat.pattern, subject, scope, binds):
                return False
            if pat.name:
                binds[pat.name] = subject
            return True
        if isinstance(pat, ast.MatchOr):
            for p in pat.patterns:
                b2 = {}
                if self.match_pattern(p, subject, scope, b2):
                    binds.update(b2)
                    return True
            return False
        if isinstance(pat, ast.MatchClass):
            cls = self.eval(pat.cls, scope)
            if not self.isinstance_(subject, cls):
                return False
            if pat.patterns:
                # positional sub-patterns: builtin "self-matching" types take one
                if cls in (bool, bytearray, bytes, dict, float, frozenset, int, list, set, str, tuple) \
                        and len(pat.patterns) == 1:
                    if not self.match_pattern(pat.patterns[0], subject, scope, binds):
                        return False
                else:
                    raise Unsupported("positional class sub-patterns (__match_args__)")
            for name, sub in zip(pat.kwd_attrs, pat.kwd_patterns):
                try:
                    val = self.getattr(subject, name)
                except SymRaise as e:
                    if isinstance(e.exc, AttributeError):
                        return False
                    raise
                if not self.match_pattern(sub, val, scope, binds):
                    return False
            return True
        if isinstance(pat, ast.MatchSequence):
            if isinstance(subject, (SStr, SBytes, SHex, str, bytes, bytearray)):
                return False
            if isinstance(subject, Sym):
                return False
            if not isinstance(subject, (list, tuple)):
                if isinstance(subject, (dict, set, frozenset, int, float, type(None))) or \
                        isinstance(subject, (PyInstance, PyClass, PyFunc)):
                    return False
                # real objects: only sequences registered with collections.abc match
                import collections.abc
                if not isinstance(subject, collections.abc.Sequence):
                    return False
                subject = list(subject)
            star = [i for i, p in enumerate(pat.patterns) if isinstance(p, ast.MatchStar)]
            if not star:
                if len(subject) != len(pat.patterns):
                    return False
                return all(self.match_pattern(p, v, scope, binds) for p, v in zip(pat.patterns, subject))
            i = star[0]
            n_after = len(pat.patterns) - i - 1
            if len(subject) < len(pat.patterns) - 1:
                return False
            for p, v in zip(pat.patterns[:i], subject[:i]):
                if not self.match_pattern(p, v, scope, binds):
                    return False
            if pat.patterns[i].name:
                binds[pat.patterns[i].name] = self.ctx.alloc(list(subject[i:len(subject) - n_after]))
            for p, v in zip(pat.patterns[i + 1:], subject[len(subject) - n_after:]):
                if not self.match_pattern(p, v, scope, binds):
                    return False
            return True
        raise Unsupported("match pattern %s" % type(pat).__name__)

    # ---- expressions --------------------------------------------------------------------
    def eval(self, node, scope):
        m = getattr(self, "e_" + type(node).__name__, None)
        if m is None:
            raise Unsupported("expression %s" % type(node).__name__)
        return m(node, scope)

    def e_Constant(self, node, scope):
        return node.value

    def e_Name(self, node, scope):
        return self.load_name(node.id, scope)

    def e_NamedExpr(self, node, scope):
        v = self.eval(node.value, scope)
        self.assign(node.target, v, scope)
        return v

    def e_BoolOp(self, node, scope):
        is_and = isinstance(node.op, ast.And)
        v = None
        for i, e in enumerate(node.values):
            v = self.eval(e, scope)
            if i == len(node.values) - 1:
                return v
            t = ops.truth(self.ctx, v)
            if is_and and not t:
                return v
            if (not is_and) and t:
                return v
        return v

    def e_UnaryOp(self, node, scope):
        return ops.unaryop(self.ctx, node.op, self.eval(node.operand, scope))

    def e_BinOp(self, node, scope):
        a = self.eval(node.left, scope)
        b = self.eval(node.right, scope)
        return ops.binop(self.ctx, node.op, a, b)

    def e_Compare(self, node, scope):
        left = self.eval(node.left, scope)
        result = True
        n = len(node.ops)
        for i, (op, rn) in enumerate(zip(node.ops, node.comparators)):
            right = self.eval(rn, scope)
            r = ops.compare(self.ctx, op, left, right)
            if i == n - 1:
                return r
            if not ops.truth(self.ctx, r):
                return r
            left = right
        return result

    def e_IfExp(self, node, scope):
        if ops.truth(self.ctx, self.eval(node.test, scope)):
            return self.eval(node.body, scope)
        return self.eval(node.orelse, scope)

    def e_Lambda(self, node, scope):
        return self.make_function(node, scope, name="<lambda>")

    def e_List(self, node, scope):
        return self.ctx.alloc(self.eval_elts(node.elts, scope))

    def e_Tuple(self, node, scope):
        return tuple(self.eval_elts(node.elts, scope))

    def e_Set(self, node, scope):
        elts = self.eval_elts(node.elts, scope)
        if contains_sym(elts):
            raise Unsupported("set display with symbolic members")
        return self.ctx.alloc(set(elts))

    def eval_elts(self, elts, scope):
        out = []
        for e in elts:
            if isinstance(e, ast.Starred):
                out.extend(self.iterate(self.eval(e.value, scope)))
            else:
                out.append(self.eval(e, scope))
        return out

    def e_Dict(self, node, scope):
        d = {}
        for k, v in zip(node.keys, node.values):
            if k is None:
                m = self.eval(v, scope)
                if not isinstance(m, dict):
                    raise Unsupported("** of non-dict in dict display")
                d.update(m)
            else:
                key = self.eval(k, scope)
                if contains_sym(key):
                    raise Unsupported("symbolic dict key")
                d[key] = self.eval(v, scope)
        return self.ctx.alloc(d)

    def _comp(self, generators, scope, emit):
        # comprehension scope: a function-like scope nested in the current one
        names = set()
        for g in generators:
            c = _LocalCollector()
            c.visit(g.target)
            names |= c.names
        cs = Scope("function", {}, scope.globals, closure=scope if scope.kind == "function" else scope.closure,
                   local_names=names, owner=scope.owner)
        if scope.kind != "function":
            # module/class level comprehension sees the enclosing dict for loads via globals only
            cs.closure = scope.closure
            cs._outer_vars = scope.vars

        first_iter = self.eval(generators[0].iter, scope)

        def rec(i):
            if i == len(generators):
                emit(cs)
                return
            g = generators[i]
            it = first_iter if i == 0 else self.eval(g.iter, cs)
            for v in self.iterate(it):
                self.assign(g.target, v, cs)
                if all(ops.truth(self.ctx, self.eval(c, cs)) for c in g.ifs):
                    rec(i + 1)
        rec(0)

    def e_ListComp(self, node, scope):
        out = self.ctx.alloc([])
        self._comp(node.generators, scope, lambda cs: out.append(self.eval(node.elt, cs)))
        return out

    def e_GeneratorExp(self, node, scope):
        # evaluated eagerly (documented deviation: laziness is not modelled)
        return self.e_ListComp(node, scope)

    def e_SetComp(self, node, scope):
        out = []
        self._comp(node.generators, scope, lambda cs: out.append(self.eval(node.elt, cs)))
        if contains_sym(out):
            raise Unsupported("set comprehension with symbolic members")
        return self.ctx.alloc(set(out))

    def e_DictComp(self, node, scope):
        out = self.ctx.alloc({})

        def emit(cs):
            k = self.eval(node.key, cs)
            if contains_sym(k):
                raise Unsupported("symbolic dict key")
            out[k] = self.eval(node.value, cs)
        self._comp(node.generators, scope, emit)
        return out

    def e_JoinedStr(self, node, scope):
        out = ""
        for v in node.values:
            if isinstance(v, ast.Constant):
                piece = v.value
            else:
                piece = self.eval(v, scope)
            out = ops.str_concat(out, piece)
        return out

    def e_FormattedValue(self, node, scope):
        v = self.eval(node.value, scope)
        if node.format_spec is not None:
            spec = self.eval(node.format_spec, scope)
            if spec != "":
                if contains_sym(v) or contains_sym(spec):
                    raise Unsupported("format spec on symbolic value")
                try:
                    return format(v, spec)
                except Exception as e:
                    raise SymRaise(e)
        if node.conversion == ord("r"):
            return self.models.m_repr(self.ctx, self, v)
        if node.conversion == ord("a"):
            raise Unsupported("!a conversion")
        # !s and no conversion: format(v, '') == str(v) for the supported types
        return self.models.m_str(self.ctx, self, v)

    def e_Attribute(self, node, scope):
        return self.getattr(self.eval(node.value, scope), node.attr)

    def eval_index(self, node, scope):
        if isinstance(node, ast.Slice):
            return slice(None if node.lower is None else self.eval(node.lower, scope),
                         None if node.upper is None else self.eval(node.upper, scope),
                         None if node.step is None else self.eval(node.step, scope))
        return self.eval(node, scope)

    def e_Subscript(self, node, scope):
        obj = self.eval(node.value, scope)
        idx = self.eval_index(node.slice, scope)
        if isinstance(obj, PyInstance):
            c, f = obj.pyclass.lookup("__getitem__")
            if f is _MISSING:
                raise SymRaise(TypeError("'%s' object is not subscriptable" % obj.pyclass.name))
            return self.call(f, [obj, idx], {})
        if isinstance(obj, type) or isinstance(obj, types.GenericAlias) or \
                type(obj).__module__ == "typing":
            # typing subscripts in annotations / casts, concrete only
            if contains_sym(idx):
                raise Unsupported("symbolic typing subscript")
            return obj[idx]
        return ops.getitem(self.ctx, obj, idx)

    def e_Slice(self, node, scope):
        return self.eval_index(node, scope)

    def e_Starred(self, node, scope):
        raise Unsupported("starred expression outside call/display")

    def e_Call(self, node, scope):
        fn = self.eval(node.func, scope)
        args = []
        for a in node.args:
            if isinstance(a, ast.Starred):
                args.extend(self.iterate(self.eval(a.value, scope)))
            else:
                args.append(self.eval(a, scope))
        kwargs = {}
        for k in node.keywords:
            if k.arg is None:
                m = self.eval(k.value, scope)
                if not isinstance(m, dict):
                    raise Unsupported("** of non-dict")
                for kk, vv in m.items():
                    if not isinstance(kk, str):
                        raise SymRaise(TypeError("keywords must be strings"))
                    if kk in kwargs:
                        raise SymRaise(TypeError("got multiple values for keyword argument '%s'" % kk))
                    kwargs[kk] = vv
            else:
                if k.arg in kwargs:
                    raise SymRaise(TypeError("got multiple values for keyword argument '%s'" % k.arg))
                kwargs[k.arg] = self.eval(k.value, scope)
        if fn is _builtins.super and not args:
            return self.make_super(scope)
        if fn is _builtins.exec:
            code = args[0] if args else kwargs.get("source")
            g = args[1] if len(args) > 1 else kwargs.get("globals")
            l = args[2] if len(args) > 2 else kwargs.get("locals")
            if g is None:
                g = scope.globals
                if l is None:
                    if scope.kind == "function":
                        raise Unsupported("exec() into function locals")
                    l = scope.vars
            elif l is None:
                l = g
            if not isinstance(g, dict) or not isinstance(l, dict):
                raise Unsupported("exec() namespaces must be dicts")
            self.exec_code(code, g, l, owner=scope.owner)
            return None
        if fn is _builtins.globals and not args:
            return scope.globals
        return self.call(fn, args, kwargs)

    def make_super(self, scope):
        s = scope
        while s is not None and s.kind != "function":
            s = s.closure
        if s is None or getattr(s, "func", None) is None or s.func.defining_class is None:
            raise Unsupported("super() outside a method")
        first = s.func.node.args.args[0].arg
        return SuperProxy(s.func.defining_class, s.vars[first])

    # ---- iteration --------------------------------------------------------------------
    def iterate(self, v):
        """Concrete-length iteration; returns a list of items."""
        if isinstance(v, (list, tuple)):
            return list(v)
        if isinstance(v, (SStr, SHex, SBytes)):
            raise Unsupported("iteration over a symbolic string")
        if isinstance(v, Sym):
            raise SymRaise(TypeError("'%s' object is not iterable" % v.pytype.__name__))
        if isinstance(v, str):
            return list(v)
        if isinstance(v, dict):
            return list(v.keys())
        if isinstance(v, (set, frozenset)):
            return self.models.iterate_set(self.ctx, v)
        if isinstance(v, range):
            if len(v) > 100000:
                raise Unsupported("huge range")
            return list(v)
        if isinstance(v, (types.GeneratorType, map, zip, enumerate, filter)):
            raise Unsupported("native lazy iterator")
        if hasattr(v, "pysym_iter"):
            return v.pysym_iter(self.ctx)
        if v is None or isinstance(v, (int, float)):
            raise SymRaise(TypeError("'%s' object is not iterable" % type(v).__name__))
        if isinstance(v, (dict.keys.__class__,)):
            pass
        if type(v).__name__ in ("dict_keys", "dict_values", "dict_items"):
            return list(v)
        raise Unsupported("iteration over %s" % type(v).__name__)

    # ---- attributes --------------------------------------------------------------------
    def getattr(self, obj, name):
        if isinstance(obj, PyInstance):
            dc, dv = obj.pyclass.lookup(name) if not name.startswith("__") else (None, _MISSING)
            if isinstance(dv, PyInstance) and dv.pyclass.lookup("__get__")[1] is not _MISSING:
                # descriptor protocol: a data descriptor (defines __set__/__delete__) wins over the instance dict
                is_data = dv.pyclass.lookup("__set__")[1] is not _MISSING or dv.pyclass.lookup("__delete__")[1] is not _MISSING
                if is_data or name not in obj.attrs:
                    return self.call(self.getattr(dv, "__get__"), [obj, obj.pyclass], {})
            if name in obj.attrs:
                return obj.attrs[name]
            if name == "__class__":
                return obj.pyclass
            if name == "__dict__":
                return obj.attrs
            c, v = obj.pyclass.lookup(name)
            if v is _MISSING:
                if name == "args":
                    return obj.exc_args
                raise SymRaise(AttributeError("'%s' object has no attribute '%s'" % (obj.pyclass.name, name)))
            return self.bind(v, obj, c)
        if isinstance(obj, PyClass):
            c, v = obj.lookup(name)
            if v is _MISSING:
                if name == "__name__":
                    return obj.name
                raise SymRaise(AttributeError("type object '%s' has no attribute '%s'" % (obj.name, name)))
            if isinstance(v, (staticmethod, classmethod)):
                raise Unsupported("static/class methods")
            if isinstance(v, PyInstance) and v.pyclass.lookup("__get__")[1] is not _MISSING:
                return self.call(self.getattr(v, "__get__"), [None, obj], {})
            return v
        if isinstance(obj, ModuleEnv):
            if name in obj.vars:
                return obj.vars[name]
            raise SymRaise(AttributeError("module '%s' has no attribute '%s'" % (obj.name, name)))
        if isinstance(obj, SuperProxy):
            mro = obj.obj.pyclass.mro if isinstance(obj.obj, PyInstance) else obj.cls.mro
            i = mro.index(obj.cls)
            for c in mro[i + 1:]:
                if isinstance(c, PyClass):
                    if name in c.ns:
                        return self.bind(c.ns[name], obj.obj, c)
                else:
                    if name in vars(c):
                        return NativeBaseMethod(c, name, obj.obj)
            raise SymRaise(AttributeError("'super' object has no attribute '%s'" % name))
        if isinstance(obj, PyFunc):
            if name == "__name__":
                return obj.name
            if name == "__qualname__":
                return obj.qualname
            if name == "__get__":
                fn_ = obj
                return _NativeRecordMethod(lambda inst, owner=None: fn_ if inst is None else PyBoundMethod(fn_, inst))
            raise Unsupported("attribute %s of function" % name)
        if isinstance(obj, PartialObj):
            if name == "func":
                return obj.fn
            if name == "args":
                return obj.args
            if name == "keywords":
                return obj.kwargs
            raise SymRaise(AttributeError("'functools.partial' object has no attribute '%s'" % name))
        if isinstance(obj, tuple) and hasattr(type(obj), "_fields") and type(obj) in self.native_ok:
            # a record built from a typing.NamedTuple class of the analysed code
            cls_ = type(obj)
            if name in cls_._fields:
                return obj[cls_._fields.index(name)]
            if name == "_replace":
                return _NativeRecordMethod(lambda *a, **k: obj._replace(*a, **k))
            if name == "_asdict":
                return _NativeRecordMethod(lambda: self.ctx.alloc(dict(obj._asdict())))
            if name == "_fields":
                return cls_._fields
            if name == "__class__":
                return cls_
        if isinstance(obj, (SStr, str, SHex, SNorm)):
            if not hasattr(str, name):
                raise SymRaise(AttributeError("'str' object has no attribute '%s'" % name))
            return BuiltinMethod(obj, name)
        if isinstance(obj, SBytes) or isinstance(obj, bytes):
            if not hasattr(bytes, name):
                raise SymRaise(AttributeError("'bytes' object has no attribute '%s'" % name))
            return BuiltinMethod(obj, name)
        if isinstance(obj, Sym):
            if hasattr(obj.pytype, name):
                return BuiltinMethod(obj, name)
            raise SymRaise(AttributeError("'%s' object has no attribute '%s'" % (obj.pytype.__name__, name)))
        if isinstance(obj, (list, dict, set, tuple, frozenset)):
            if not hasattr(type(obj), name):
                raise SymRaise(AttributeError("'%s' object has no attribute '%s'" % (type(obj).__name__, name)))
            return BuiltinMethod(obj, name)
        if hasattr(obj, "pysym_getattr"):
            return obj.pysym_getattr(self.ctx, self, name)
        if isinstance(obj, (int, float, bool, type(None))):
            if not hasattr(obj, name):
                raise SymRaise(AttributeError("'%s' object has no attribute '%s'" % (type(obj).__name__, name)))
            return BuiltinMethod(obj, name)
        # real object: plain attribute read (data attributes of live repo objects, module
        # attributes, enum members ...)
        return self.models.native_getattr(self.ctx, self, obj, name)

    def bind(self, v, obj, cls):
        if isinstance(v, PyFunc):
            return PyBoundMethod(v, obj)
        if isinstance(v, PyProperty):
            return self.call(v.fget, [obj], {})
        if isinstance(v, PyStatic):
            return v.fn
        if isinstance(v, (staticmethod, classmethod)):
            raise Unsupported("static/class methods")
        if isinstance(v, (types.FunctionType, types.BuiltinFunctionType, types.MethodDescriptorType,
                          types.WrapperDescriptorType)):
            return NativeBaseMethod(cls, getattr(v, "__name__", "?"), obj)
        return v

    def setattr(self, obj, name, value):
        if isinstance(obj, PyInstance):
            c, v = obj.pyclass.lookup(name)
            if isinstance(v, PyProperty):
                raise Unsupported("property setter")
            if isinstance(v, PyInstance) and v.pyclass.lookup("__set__")[1] is not _MISSING:
                self.call(self.getattr(v, "__set__"), [obj, value], {})
                return
            if not self.ctx.is_local(obj):
                self.ctx.effect("attr-store", obj, name)
            obj.attrs[name] = value
            return
        if isinstance(obj, PyClass):
            self.ctx.effect("class-attr-store", obj, name)
            obj.ns[name] = value
            return
        if isinstance(obj, ModuleEnv):
            self.ctx.effect("module-attr-store", obj, name)
            obj.vars[name] = value
            return
        if isinstance(obj, (Sym, str, int, float, list, dict, tuple, set, type(None))):
            raise SymRaise(AttributeError("'%s' object has no attribute '%s'" % (pytype_of(obj).__name__, name)))
        if hasattr(obj, "pysym_setattr"):
            return obj.pysym_setattr(self.ctx, self, name, value)
        raise Unsupported("attribute store on native %s" % type(obj).__name__)

    def setitem(self, obj, idx, value):
        if isinstance(obj, dict) and contains_sym(idx):
            return self.models.symdict_set(self.ctx, self, obj, idx, value)
        if isinstance(obj, (list, dict)):
            if contains_sym(idx):
                raise Unsupported("symbolic subscript store")
            if not self.ctx.is_local(obj):
                self.ctx.effect("item-store", obj, idx)
            try:
                obj[idx] = value
            except Exception as e:
                raise SymRaise(e)
            return
        if isinstance(obj, (tuple, str, SStr)):
            raise SymRaise(TypeError("'%s' object does not support item assignment" % pytype_of(obj).__name__))
        raise Unsupported("subscript store on %s" % type(obj).__name__)

    # ---- calls ----------------------------------------------------------------------------
    def call(self, fn, args, kwargs):
        self.call_depth += 1
        if self.call_depth > 150:
            self.call_depth -= 1
            raise Unsupported("interpreted call depth > 150")
        try:
            return self._call(fn, args, kwargs)
        finally:
            self.call_depth -= 1

    def _call(self, fn, args, kwargs):
        if isinstance(fn, PyFunc):
            ov = self.call_overrides.get("%s:%s" % (getattr(fn.module, "name", None), fn.qualname))
            if ov is None:
                ov = self.call_overrides.get(fn.qualname)
            if ov is not None:
                return ov(self.ctx, self, args, kwargs)
            return self.call_pyfunc(fn, args, kwargs)
        if isinstance(fn, PyBoundMethod):
            return self.call(fn.func, [fn.self_obj] + list(args), kwargs)
        if isinstance(fn, PartialObj):
            kw = dict(fn.kwargs)
            kw.update(kwargs)
            return self.call(fn.fn, list(fn.args) + list(args), kw)
        if isinstance(fn, PyClass):
            return self.instantiate(fn, args, kwargs)
        if isinstance(fn, BuiltinMethod):
            return self.models.call_method(self.ctx, self, fn.obj, fn.name, args, kwargs)
        if isinstance(fn, NativeBaseMethod):
            return fn.call(self, args, kwargs)
        if isinstance(fn, PyInstance):
            c, f = fn.pyclass.lookup("__call__")
            if f is _MISSING:
                raise SymRaise(TypeError("'%s' object is not callable" % fn.pyclass.name))
            return self.call(f, [fn] + list(args), kwargs)
        if hasattr(fn, "pysym_call"):
            return fn.pysym_call(self.ctx, self, args, kwargs)
        if isinstance(fn, Sym) or fn is None or isinstance(fn, (int, float, str, list, tuple, dict)):
            raise SymRaise(TypeError("'%s' object is not callable" % pytype_of(fn).__name__))
        return self.models.call_native(self.ctx, self, fn, args, kwargs)

    def instantiate(self, cls, args, kwargs):
        inst = self.ctx.alloc(PyInstance(cls))
        inst.exc_args = tuple(args)
        c, init = cls.lookup("__init__")
        if isinstance(init, PyFunc):
            r = self.call(init, [inst] + list(args), kwargs)
            if r is not None:
                raise SymRaise(TypeError("__init__() should return None"))
        elif c is object or init is _MISSING:
            if args or kwargs:
                raise SymRaise(TypeError("%s() takes no arguments" % cls.name))
        else:
            # native base __init__ (e.g. Exception): accepts anything positional
            if kwargs and c is not object:
                raise SymRaise(TypeError("%s() takes no keyword arguments" % cls.name))
        return inst

    def bind_args(self, fn, args, kwargs):
        a = fn.node.args
        name = fn.name
        params = [p.arg for p in a.posonlyargs + a.args]
        n_pos = len(params)
        vars_ = {}
        args = list(args)
        kwargs = dict(kwargs)
        if len(args) > n_pos and a.vararg is None:
            raise SymRaise(TypeError("%s() takes %d positional argument%s but %d %s given" % (
                name, n_pos, "" if n_pos == 1 else "s", len(args), "was" if len(args) == 1 else "were")))
        for p, v in zip(params, args):
            vars_[p] = v
        if a.vararg is not None:
            vars_[a.vararg.arg] = tuple(args[n_pos:])
        posonly = {p.arg for p in a.posonlyargs}
        kwonly = [p.arg for p in a.kwonlyargs]
        extra = {}
        for k, v in kwargs.items():
            if (k in params and k not in posonly) or k in kwonly:
                if k in vars_:
                    raise SymRaise(TypeError("%s() got multiple values for argument '%s'" % (name, k)))
                vars_[k] = v
            elif a.kwarg is not None:
                extra[k] = v
            else:
                raise SymRaise(TypeError("%s() got an unexpected keyword argument '%s'" % (name, k)))
        # defaults
        nd = len(fn.defaults)
        missing = []
        for i, p in enumerate(params):
            if p not in vars_:
                j = i - (n_pos - nd)
                if j >= 0:
                    vars_[p] = fn.defaults[j]
                else:
                    missing.append(p)
        if missing:
            raise SymRaise(TypeError("%s() missing %d required positional argument%s: %s" % (
                name, len(missing), "" if len(missing) == 1 else "s",
                " and ".join("'%s'" % m for m in missing))))
        missing = []
        for p, present, d in zip(kwonly, fn.kw_default_present, fn.kw_defaults):
            if p not in vars_:
                if present:
                    vars_[p] = d
                else:
                    missing.append(p)
        if missing:
            raise SymRaise(TypeError("%s() missing %d required keyword-only argument%s: %s" % (
                name, len(missing), "" if len(missing) == 1 else "s",
                " and ".join("'%s'" % m for m in missing))))
        if a.kwarg is not None:
            vars_[a.kwarg.arg] = self.ctx.alloc(extra)
        return vars_

    def call_pyfunc(self, fn, args, kwargs):
        vars_ = self.bind_args(fn, args, kwargs)
        if fn.qualname not in self.encoded_functions:
            try:
                self.encoded_functions[fn.qualname] = ast.unparse(fn.node)
            except Exception:
                self.encoded_functions[fn.qualname] = "<unparse failed>"
        key = "_locals_" + str(id(fn.node))
        cached = getattr(fn, "_locals_cache", None)
        if cached is None:
            cached = function_locals(fn.node)
            fn._locals_cache = cached
        local_names, gdecl, nldecl = cached
        scope = Scope("function", vars_, fn.globals, closure=fn.closure, local_names=local_names,
                      owner=fn.owner)
        scope.global_decl = set(gdecl)
        scope.nonlocal_decl = set(nldecl)
        scope.func = fn
        if isinstance(fn.node, ast.Lambda):
            return self.eval(fn.node.body, scope)
        is_gen = getattr(fn, "_is_generator", None)
        if is_gen is None:
            is_gen = _contains_yield(fn.node)
            fn._is_generator = is_gen
        if is_gen:
            # documented deviation: a generator function is run EAGERLY to completion when called and its values are
            # handed out as a list (no interleaving with the consumer; exceptions surface at the call)
            self.ctx.note("model: generator function %s executed eagerly (yielded values collected into a list)" % fn.qualname)
            scope.yielded = self.ctx.alloc([])
            try:
                self.exec_body(fn.node.body, scope)
            except ReturnSignal:
                pass
            return scope.yielded
        try:
            self.exec_body(fn.node.body, scope)
        except ReturnSignal as r:
            return r.value
        return None

    def e_Yield(self, node, scope):
        if not hasattr(scope, "yielded"):
            raise Unsupported("yield outside an eagerly executed generator")
        v = self.eval(node.value, scope) if node.value is not None else None
        scope.yielded.append(v)
        self.ctx.recorded.append(("yield", v))
        return None

    # ---- exec / compile -----------------------------------------------------------------
    def compile_source(self, source, filename="<string>", mode="exec"):
        if not isinstance(source, str):
            if isinstance(source, SStr):
                raise Unsupported("compile() of symbolic text")
            raise SymRaise(TypeError("compile() arg 1 must be a string, bytes or AST object"))
        try:
            tree = ast.parse(source, filename=filename, mode=mode)
            compile(source, filename, mode)  # CPython's own late syntax checks (duplicate args ...)
        except SyntaxError as e:
            raise SymRaise(e)
        except ValueError as e:
            raise SymRaise(e)
        return CodeObj(tree, source, filename, mode)

    def exec_code(self, code, globals_, locals_, owner=None):
        if isinstance(code, str):
            code = self.compile_source(code)
        if not isinstance(code, CodeObj):
            raise Unsupported("exec of %s" % type(code).__name__)
        scope = Scope("module", locals_, globals_, owner=owner)
        self.exec_body(code.tree.body, scope)


class _NativeRecordMethod:
    def __init__(self, f):
        self.f = f

    def pysym_call(self, ctx, interp, args, kwargs):
        try:
            return self.f(*args, **kwargs)
        except (TypeError, ValueError) as e:
            raise SymRaise(e)


def _contains_yield(fnode):
    """does this function's own body (not nested functions) contain a yield?"""
    stack = list(getattr(fnode, "body", []))
    while stack:
        n = stack.pop()
        if isinstance(n, (ast.Yield, ast.YieldFrom)):
            return True
        if isinstance(n, (ast.FunctionDef, ast.AsyncFunctionDef, ast.Lambda, ast.ClassDef)):
            continue
        stack.extend(ast.iter_child_nodes(n))
    return False


class NativeBaseMethod:
    """A method of a native base class reached through super() or inheritance
    (only the harmless object/Exception initialisers are supported)."""

    def __init__(self, cls, name, obj):
        self.cls = cls
        self.name = name
        self.obj = obj

    def call(self, interp, args, kwargs):
        if self.name == "__init__" and (self.cls is object or issubclass(self.cls, BaseException)):
            if isinstance(self.obj, PyInstance):
                self.obj.exc_args = tuple(args)
            return None
        if self.name in ("__str__", "__repr__") and issubclass(self.cls, BaseException):
            a = self.obj.exc_args
            if len(a) == 0:
                return ""
            if len(a) == 1:
                return interp.models.m_str(interp.ctx, interp, a[0])
        raise Unsupported("native base method %s.%s" % (self.cls.__name__, self.name))
