"""Symbolic value classes of pysym.

Every symbolic value wraps one z3 term.  Concrete Python objects are used as they
are.  None of these classes overloads Python operators: the interpreter applies
Python's semantics explicitly (ops.py), so nothing symbolic is ever decided by
CPython behind our back.
"""
from __future__ import annotations

import fractions
import z3


class Unsupported(Exception):
    """The interpreted code left the supported subset on a (possibly) feasible path."""


class Sym:
    __slots__ = ("term",)
    pytype: type = object

    def __init__(self, term):
        self.term = term

    def __repr__(self):  # a Sym must never leak into a native str()/repr()
        raise Unsupported("native repr() of a symbolic value (%s)" % type(self).__name__)

    __str__ = __repr__

    def __bool__(self):
        raise Unsupported("native truth test of a symbolic value (%s)" % type(self).__name__)

    def __hash__(self):
        raise Unsupported("native hash() of a symbolic value")

    def __eq__(self, other):
        raise Unsupported("native == on a symbolic value")

    def show(self):
        return "%s(%s)" % (type(self).__name__, self.term)


class SBool(Sym):
    pytype = bool


class SInt(Sym):
    """Python int (mathematical).  `bv` optionally carries the unsigned bit-vector the
    integer was read from, so that float conversion can be bit-precise."""
    __slots__ = ("bv", "fpsrc")
    pytype = int

    def __init__(self, term, bv=None, fpsrc=None):
        self.term = term
        self.bv = bv
        self.fpsrc = fpsrc      # integral-valued binary64 term this int was obtained from (floor / int / trunc of a float):
                                # converting back to float, or comparing with a small constant, can then stay inside FP


class SReal(Sym):
    """Python float in *exact* mode: value is a real number, arithmetic is exact.
    Every arithmetic operation producing an SReal is recorded as an exactness
    obligation by the interpreter."""
    pytype = float


class SFP(Sym):
    """Python float, bit-precise IEEE binary64 (round-nearest-even)."""
    pytype = float


class SStr(Sym):
    pytype = str


class SBytes(Sym):
    """bytes obtained by encoding a symbolic str; term is the *str* term."""
    __slots__ = ("encoding",)
    pytype = bytes

    def __init__(self, term, encoding):
        self.term = term
        self.encoding = encoding


class SHex(Sym):
    """Lower-case hexadecimal rendering of a bit-vector (hexdigest and slices of it)."""
    pytype = str

    @property
    def nbits(self):
        return self.term.size()


class SBytesBV(Sym):
    """raw digest bytes (and slices of them) as a bit-vector, most significant byte first"""
    pytype = bytes

    @property
    def nbytes(self):
        return self.term.size() // 8


class SOpaque(Sym):
    """A value of the uninterpreted sort Obj: only identity/equality is known."""
    pytype = object


class SStrList(Sym):
    """list of str obtained from a symbolic str by a pure function without a precise model (str.split, splitlines,
    re.split ...): a term of the uninterpreted sort Obj; only sep.join(.) of it is given a meaning (again uninterpreted)"""
    pytype = list


Obj = z3.DeclareSort("Obj")
FP64 = z3.Float64()
RNE = z3.RNE()


def is_sym(v):
    return isinstance(v, Sym)


def contains_sym(v, _depth=0):
    if isinstance(v, Sym):
        return True
    if _depth > 6:
        return False
    if isinstance(v, (list, tuple, set, frozenset)):
        return any(contains_sym(e, _depth + 1) for e in v)
    if isinstance(v, dict):
        return any(contains_sym(e, _depth + 1) for e in v.values())
    return False


def pytype_of(v):
    if isinstance(v, Sym):
        return v.pytype
    return type(v)


def float_to_real(x: float):
    fr = fractions.Fraction(x)
    return z3.RealVal(str(fr.numerator)) / z3.RealVal(str(fr.denominator)) if fr.denominator != 1 \
        else z3.RealVal(str(fr.numerator))


def fp_const(x: float):
    return z3.FPVal(x, FP64)


class SNorm(Sym):
    """A symbolic str after .lower() and/or .strip(): comparisons against constants become regular constraints on
    the ORIGINAL string (case-insensitive letter classes / surrounding whitespace computed from CPython itself)."""
    __slots__ = ("lower", "strip")
    pytype = str

    def __init__(self, term, lower=False, strip=False):
        self.term = term
        self.lower = lower
        self.strip = strip


_CI = {}
_WS = []


def ci_class(c):
    """all characters whose str.lower() is the single character c"""
    if not _CI:
        for cp in range(0x30000):
            if 0xD800 <= cp <= 0xDFFF:
                continue
            ch = chr(cp)
            lo = ch.lower()
            if len(lo) == 1 and lo != ch or (len(lo) == 1 and ch == lo):
                _CI.setdefault(lo, []).append(ch)
    return _CI.get(c, [c] if c.lower() == c else [])


def strip_chars():
    if not _WS:
        for cp in range(0x30000):
            if 0xD800 <= cp <= 0xDFFF:
                continue
            if chr(cp).isspace():
                _WS.append(chr(cp))
    return _WS


def norm_eq_regex(norm, const):
    """regex over the original string x such that normalise(x) == const, or None if impossible"""
    if norm.lower and const != const.lower():
        return None
    ws = strip_chars()
    if norm.strip and const and (const[0] in ws or const[-1] in ws):
        return None
    parts = []
    for c in const:
        if norm.lower:
            alts = ci_class(c)
            if not alts:
                return None
            parts.append(z3.Union(*[z3.Re(z3.StringVal(a)) for a in alts]) if len(alts) > 1 else z3.Re(z3.StringVal(alts[0])))
        else:
            parts.append(z3.Re(z3.StringVal(c)))
    core = z3.Concat(*parts) if len(parts) > 1 else (parts[0] if parts else z3.Re(z3.StringVal("")))
    if norm.strip:
        w = z3.Star(z3.Union(*[z3.Re(z3.StringVal(a)) for a in ws]))
        return z3.Concat(w, core, w)
    return core
