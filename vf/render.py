"""Symbolic execution of the real code generator with one literal symbolic (shared by C05/C13).

The AST is built from the live pydantic classes with `construct()` (no validation: validation is
C05's 'model' stage), one position holding a symbolic str / int / float.  generate() is run by
pysym; the returned text is a concatenation term which is flattened into pieces: concrete text,
faithful renderings by CPython contract (repr(str), str(int), repr(float)), and RAW occurrences
of the symbolic value (hand-quoted or spliced), which are then put to the solver.
"""
from __future__ import annotations

import z3

from vf import common
from vf.pysym import api, ops
from vf.pysym.explore import Return, Raise, Unsup
from vf.pysym.values import SStr, SInt, SReal

GEN = "pyab_experiment.codegen.python.python_generator"

POSITIONS = ["salt", "left_term", "right_term", "tuple_member", "nested_tuple_member", "group_definition",
             "second_group_definition"]


def build_ast(position, value):
    from pyab_experiment.data_structures.syntax_tree import (ExperimentAST, ExperimentConditional, ExperimentGroup,
                                                             Identifier, TerminalPredicate, ConditionalType,
                                                             LogicalOperatorEnum)
    g = lambda v, w=1.0: ExperimentGroup.construct(group_definition=v, group_weight=w)
    left, right = Identifier(name="fld"), "plain"
    op = LogicalOperatorEnum.EQ
    groups = [g("A"), g("B", 2.0)]
    salt = "s"
    if position == "salt":
        salt = value
    elif position == "left_term":
        left, right = value, Identifier(name="fld")
    elif position == "right_term":
        right = value
    elif position == "tuple_member":
        right, op = (1, value, "x"), LogicalOperatorEnum.IN
    elif position == "nested_tuple_member":
        right, op = ((value, 2), 3), LogicalOperatorEnum.NOT_IN
    elif position == "group_definition":
        groups = [g(value), g("B", 2.0)]
    elif position == "second_group_definition":
        groups = [g("A"), g(value, 2.0), g(3)]
    else:
        raise ValueError(position)
    pred = TerminalPredicate.construct(left_term=left, logical_operator=op, right_term=right)
    cond = ExperimentConditional.construct(conditional_type=ConditionalType.IF, predicate=pred, true_branch=groups,
                                           false_branch=ExperimentConditional.construct(
                                               conditional_type=ConditionalType.ELSE, predicate=None,
                                               true_branch=[g("else")], false_branch=None))
    return ExperimentAST.construct(id="exp", splitting_fields=["uid"], salt=salt, conditions=cond)


def run_generate(ast_, expose):
    def entry(it):
        env = it.import_module(GEN)
        cls = env.vars["PythonCodeGen"]
        inst = it.call(cls, [ast_], {"expose_experiment_variant_function": expose})
        return it.call(it.getattr(inst, "generate"), [], {})
    return api.run(entry, opts={"prune": True})


def flatten(term):
    """z3 String term -> list of pieces: ('text', str) | ('repr', arg) | ('intstr', arg) | ('floatstr', arg) |
    ('raw', const) | ('other', term)"""
    out = []

    def rec(t):
        if z3.is_string_value(t):
            out.append(("text", _py(t)))
            return
        if z3.is_app(t) and t.decl().kind() == z3.Z3_OP_SEQ_CONCAT:
            for c in t.children():
                rec(c)
            return
        if z3.is_app(t) and t.decl().kind() == z3.Z3_OP_UNINTERPRETED and t.num_args() == 1:
            n = t.decl().name()
            if n == "py_str_repr":
                out.append(("repr", t.arg(0)))
                return
            if n in ("py_float_str", "py_fp_str"):
                out.append(("floatstr", t.arg(0)))
                return
            if n == "py_int_str":
                out.append(("intstr", t.arg(0)))
                return
        if z3.is_const(t) and t.decl().kind() == z3.Z3_OP_UNINTERPRETED:
            out.append(("raw", t))
            return
        if _is_int_to_str(t):
            out.append(("intstr", t))
            return
        out.append(("other", t))
    rec(term)
    # merge adjacent text
    merged = []
    for k, v in out:
        if k == "text" and merged and merged[-1][0] == "text":
            merged[-1] = ("text", merged[-1][1] + v)
        else:
            merged.append((k, v))
    return merged


def _is_int_to_str(t):
    s = str(t.decl()) if z3.is_app(t) else ""
    if z3.is_app(t) and t.decl().kind() == z3.Z3_OP_ITE:
        return True
    return z3.is_app(t) and t.decl().name() in ("int.to.str", "str.from_int")


def _py(t):
    from vf.harness import z3str_to_py
    return z3str_to_py(t)


# ---- Python source-literal languages (DESIGN.md Appendix D) -----------------------------
def struct_single_quoted(q):
    """structurally ONE q-quoted string token: q ( [^q \\ \n \r \0] | \\ [^\n\r\0] )* q"""
    bad = {q, "\\", "\n", "\r", "\0"}
    plain = z3.Intersect(z3.AllChar(z3.ReSort(z3.StringSort())),
                         z3.Complement(z3.Union(*[z3.Re(z3.StringVal(c)) for c in sorted(bad)])))
    anych = z3.AllChar(z3.ReSort(z3.StringSort()))
    esc_ok = z3.Intersect(anych, z3.Complement(z3.Union(*[z3.Re(z3.StringVal(c)) for c in ("\n", "\r", "\0")])))
    body = z3.Star(z3.Union(plain, z3.Concat(z3.Re(z3.StringVal("\\")), esc_ok)))
    return z3.Concat(z3.Re(z3.StringVal(q)), body, z3.Re(z3.StringVal(q)))


def ident_single_quoted(q):
    """q-quoted token that decodes to exactly its contents: no backslash at all"""
    bad = {q, "\\", "\n", "\r", "\0"}
    plain = z3.Intersect(z3.AllChar(z3.ReSort(z3.StringSort())),
                         z3.Complement(z3.Union(*[z3.Re(z3.StringVal(c)) for c in sorted(bad)])))
    return z3.Concat(z3.Re(z3.StringVal(q)), z3.Star(plain), z3.Re(z3.StringVal(q)))


def dsl_string_contents():
    """what a DSL string literal can contain: anything but a newline (and not both quote kinds at once)"""
    anych = z3.AllChar(z3.ReSort(z3.StringSort()))
    nonl = z3.Intersect(anych, z3.Complement(z3.Re(z3.StringVal("\n"))))
    no_dq = z3.Star(z3.Intersect(nonl, z3.Complement(z3.Re(z3.StringVal('"')))))
    no_sq = z3.Star(z3.Intersect(nonl, z3.Complement(z3.Re(z3.StringVal("'")))))
    return z3.Union(no_dq, no_sq)


def analyse_string_position(position, expose, tally, timeout_ms=60000):
    """-> dict(status, occurrences=[...], findings=[(kind, witness string, description)])"""
    s = SStr(z3.String("lit"))
    ast_ = build_ast(position, s)
    run = run_generate(ast_, expose)
    res = {"position": position, "expose": expose, "paths": len(run.paths), "findings": [], "occurrences": [],
           "encoded": run.encoded_digest(), "stubs": run.notes, "status": "ok"}
    contents = z3.InRe(s.term, dsl_string_contents())
    for p in run.paths:
        if isinstance(p.outcome, Unsup):
            res["status"] = "inconclusive"
            res["note"] = p.outcome.reason
            continue
        if isinstance(p.outcome, Raise):
            r, m = common.check(tally, list(p.conds) + [contents], timeout_ms, label="render: generator raises")
            if r == "sat":
                res["findings"].append(("raise", _model_str(m, s), "code generation raises %s" % p.outcome.exc_name))
            continue
        text = p.outcome.value
        tmpl = [n for n in p.notes if n.startswith("format-template:")]
        if tmpl:
            res["findings"].append(("inject", "{0.__class__.__mro__}%(x)s${y}", "text containing the literal is used as a format template: " + tmpl[0][17:]))
            continue
        if isinstance(text, str):
            res["findings"].append(("dropped", "x", "the literal does not appear in the generated code"))
            continue
        pieces = flatten(text.term)
        seen_lit = False
        for i, (k, v) in enumerate(pieces):
            if k == "repr" and v.eq(s.term):
                seen_lit = True
                res["occurrences"].append("repr()")
            elif k == "raw" and v.eq(s.term):
                seen_lit = True
                before = pieces[i - 1][1] if i > 0 and pieces[i - 1][0] == "text" else ""
                after = pieces[i + 1][1] if i + 1 < len(pieces) and pieces[i + 1][0] == "text" else ""
                q = before[-1:] if before[-1:] in ("'", '"') and after[:1] == before[-1:] else None
                res["occurrences"].append("raw within %s" % (q + "..." + q if q else "no quotes"))
                if q is None:
                    r, m = common.check(tally, list(p.conds) + [contents, z3.Length(s.term) > 0], timeout_ms,
                                        label="render: literal spliced unquoted")
                    if r == "sat":
                        line = before.rsplit("\n", 1)[-1]
                        if "#" in line:
                            # inside a comment: harmless unless the literal can end the line.  CPython ends a physical line at
                            # a bare carriage return too, and a DSL string may contain one (the solver is asked)
                            cr = z3.Contains(s.term, z3.StringVal("\r"))
                            r2, m2 = common.check(tally, list(p.conds) + [contents, cr], timeout_ms,
                                                  label="C13 render: a literal quoted in a comment can contain a line terminator")
                            if r2 == "sat":
                                res["findings"].append(("inject-search", ["\rprint('PWNED')\r#", "a\rb = 1\r#", "x\rraise SystemExit\r#"],
                                                        "string contents spliced into a comment of the generated code; a carriage "
                                                        "return ends the comment"))
                        else:
                            res["findings"].append(("inject-search", ["0) or print('PWNED') or (0", "0\nprint('PWNED')", "' + str(print('PWNED')) + '",
                                                                      "\rprint('PWNED')\r#", "None if print('PWNED') else None"],
                                                    "string contents spliced into the code unquoted"))
                    continue
                frag = z3.Concat(z3.StringVal(q), s.term, z3.StringVal(q))
                r, m = common.check(tally, list(p.conds) + [contents, z3.Not(z3.InRe(frag, struct_single_quoted(q)))],
                                    timeout_ms, label="C13 render: hand-quoted literal is not always ONE string token (%s)" % position,
                                    keep_sample=True)
                if r == "sat":
                    res["findings"].append(("inject", _model_str(m, s), "hand-quoted literal can terminate its own quotes"))
                elif r == "unknown":
                    res["status"] = "inconclusive"
                r, m = common.check(tally, list(p.conds) + [contents, z3.InRe(frag, struct_single_quoted(q)),
                                                            z3.Not(z3.InRe(frag, ident_single_quoted(q)))],
                                    timeout_ms, label="C05 render: hand-quoted literal does not always decode to its contents (%s)" % position,
                                    keep_sample=True)
                if r == "sat":
                    res["findings"].append(("altered", _model_str(m, s), "hand-quoted literal is re-interpreted by Python (escape sequence)"))
                elif r == "unknown":
                    res["status"] = "inconclusive"
            elif k == "other" and _mentions(v, s.term) and "py_" in str(v.decl().name() if z3.is_app(v) else ""):
                # the literal goes through a function the model leaves uninterpreted (replace / re.sub / translate ...)
                # before it is spliced into the code: whether that escaping is adequate is decided by trying the
                # adversarial literal corpus on the real code
                seen_lit = True
                res["occurrences"].append("transformed by %s" % v.decl().name())
                res["findings"].append(("search", None, "the literal is transformed by %s (uninterpreted in the model) before it "
                                        "is spliced into the code" % v.decl().name()))
            elif k == "other":
                res["status"] = "inconclusive"
                res["note"] = "unrecognised piece in the generated text: %s" % str(v)[:80]
        if not seen_lit:
            res["findings"].append(("dropped", "x", "the literal does not appear in the generated code"))
    return res


def _mentions(t, x):
    if t.eq(x):
        return True
    return any(_mentions(c, x) for c in t.children())


def _model_str(m, s):
    from vf.harness import z3str_to_py
    return z3str_to_py(m.eval(s.term, model_completion=True))


def analyse_number_position(position, sort, expose, tally, timeout_ms=60000):
    v = SInt(z3.Int("lit")) if sort == "int" else SReal(z3.Real("lit"))
    ast_ = build_ast(position, v)
    run = run_generate(ast_, expose)
    res = {"position": position, "sort": sort, "paths": len(run.paths), "findings": [], "occurrences": [],
           "encoded": run.encoded_digest(), "stubs": run.notes, "status": "ok"}
    for p in run.paths:
        if isinstance(p.outcome, Unsup):
            res["status"] = "inconclusive"
            res["note"] = p.outcome.reason
            continue
        if isinstance(p.outcome, Raise):
            res["findings"].append(("raise", 1, "code generation raises %s" % p.outcome.exc_name))
            continue
        text = p.outcome.value
        if isinstance(text, str):
            res["findings"].append(("dropped", 1, "numeric literal does not appear in the generated code"))
            continue
        pieces = flatten(text.term)
        ok = False
        for i, (k, t) in enumerate(pieces):
            if k in ("intstr", "floatstr"):
                before = pieces[i - 1][1] if i > 0 and pieces[i - 1][0] == "text" else ""
                after = pieces[i + 1][1] if i + 1 < len(pieces) and pieces[i + 1][0] == "text" else ""
                if before[-1:] in ("'", '"'):
                    res["findings"].append(("altered", 7, "numeric literal rendered inside quotes (becomes a string)"))
                elif before[-1:].isalnum() or before[-1:] in "._" or after[:1].isalnum() or after[:1] in "._":
                    res["findings"].append(("altered", 7, "numeric literal glued to adjacent text %r...%r" % (before[-3:], after[:3])))
                else:
                    ok = True
                res["occurrences"].append(k)
        if not ok and not res["findings"]:
            res["findings"].append(("dropped", 1, "numeric literal not rendered through str()/repr()"))
    return res
