"""Helpers shared by the property modules: real pipeline, symbolic fields, model decoding."""
from __future__ import annotations

import contextlib
import fractions
import io
import sys
import re

import z3

from vf.pysym import api
from vf.pysym.values import SInt, SReal, SStr, SFP, SBool, Sym
from vf.pysym.explore import Return, Raise, Unsup

EVAL_MODULE = "pyab_experiment.experiment_evaluator"


class CompileResult:
    def __init__(self):
        self.ast = None
        self.text = None
        self.error = None
        self.printed = ""
        self.fn_name = None


@contextlib.contextmanager
def default_recursion_limit():
    """the checker raises the interpreter's recursion limit for its own interpreter-in-interpreter; the code under test
    must be run with the limit its users have (CPython's default of 1000), counted from the current depth"""
    import inspect
    old = sys.getrecursionlimit()
    depth = len(inspect.stack(0))
    sys.setrecursionlimit(min(old, 1000 + depth))
    try:
        yield
    finally:
        sys.setrecursionlimit(old)


def real_generate(text, expose=False):
    """text -> (lexer -> parser -> PythonCodeGen.generate()), exactly the steps of
    ExperimentEvaluator.recompile; stdout/stderr captured."""
    from pyab_experiment.utils.wraper_functions import parse_source
    from pyab_experiment.codegen.python.python_generator import PythonCodeGen
    r = CompileResult()
    buf = io.StringIO()
    try:
        with contextlib.redirect_stdout(buf), contextlib.redirect_stderr(buf), default_recursion_limit():
            ast_ = parse_source(text)
            if ast_ is None:
                r.error = ("ParseError", "parse_source returned None")
            else:
                r.ast = ast_
                r.fn_name = ast_.id
                r.text = PythonCodeGen(ast_, expose_experiment_variant_function=expose).generate()
    except Exception as e:
        r.error = (type(e).__name__, str(e)[:300])
    r.printed = buf.getvalue()
    return r


def real_python_compiles(text):
    try:
        compile(text, "<string>", "exec")
        return None
    except SyntaxError as e:
        return ("SyntaxError", str(e))
    except ValueError as e:
        return ("ValueError", str(e))


# ------------------------------------------------------------------------------------
# symbolic fields
# ------------------------------------------------------------------------------------
def sym_value(name, sort, numeric="real"):
    """sort: 'num' | 'int' | 'str' | ('tuple', elem_sort, n) | 'strc' (a string container)"""
    if sort == "num":
        if numeric == "int":
            return SInt(z3.Int(name))
        if numeric == "fp":
            # every binary64 value incl. NaN, +-inf and -0.0
            from vf.pysym.values import FP64
            return SFP(z3.FP(name, FP64))
        return SReal(z3.Real(name))
    if sort == "int":
        return SInt(z3.Int(name))
    if sort in ("str", "strc"):
        return SStr(z3.String(name))
    if isinstance(sort, tuple) and sort[0] == "tuple":
        return tuple(sym_value("%s_%d" % (name, i), sort[1], numeric) for i in range(sort[2]))
    raise ValueError(sort)


def z3str_to_py(zs):
    """z3 string literal value -> Python str"""
    s = zs.as_string()
    out = []
    i = 0
    while i < len(s):
        if s.startswith("\\u{", i):
            j = s.index("}", i)
            out.append(chr(int(s[i + 3:j], 16)))
            i = j + 1
        elif s.startswith("\\u", i) and i + 6 <= len(s) and re.fullmatch(r"[0-9a-fA-F]{4}", s[i + 2:i + 6]):
            out.append(chr(int(s[i + 2:i + 6], 16)))
            i += 6
        else:
            out.append(s[i])
            i += 1
    return "".join(out)


def model_value(model, v, prefer_float=False):
    """Concrete Python value of a pysym value under a z3 model."""
    if isinstance(v, tuple):
        return tuple(model_value(model, e, prefer_float) for e in v)
    if isinstance(v, list):
        return [model_value(model, e, prefer_float) for e in v]
    if not isinstance(v, Sym):
        return v
    t = model.eval(v.term, model_completion=True)
    if isinstance(v, SInt):
        return t.as_long()
    if isinstance(v, SBool):
        return z3.is_true(t)
    if isinstance(v, SStr):
        return z3str_to_py(t)
    if isinstance(v, SReal):
        if z3.is_algebraic_value(t):
            t = t.approx(30)
        fr = fractions.Fraction(t.numerator_as_long(), t.denominator_as_long())
        if fr.denominator == 1 and not prefer_float:
            return int(fr)
        return float(fr)
    if isinstance(v, SFP):
        return fp_model_value(t)
    raise ValueError("model_value of %s" % type(v).__name__)


def fp_model_value(t):
    import math
    if z3.fpIsNaN(t) is not None and z3.is_true(z3.simplify(z3.fpIsNaN(t))):
        return math.nan
    if z3.is_true(z3.simplify(z3.fpIsInf(t))):
        return -math.inf if z3.is_true(z3.simplify(z3.fpIsNegative(t))) else math.inf
    fr = z3.simplify(z3.fpToReal(t))
    return float(fractions.Fraction(fr.numerator_as_long(), fr.denominator_as_long()))


def representable_constraint(v, idx=[0]):
    """Constraint making an SReal's value an integer or a short binary fraction, so that a
    witness can be replayed exactly as a Python int/float."""
    out = []

    def rec(x):
        if isinstance(x, (tuple, list)):
            for e in x:
                rec(e)
        elif isinstance(x, SReal):
            idx[0] += 1
            m = z3.Int("repr_m!%d" % idx[0])
            out.append(z3.And(x.term * 1024 == z3.ToReal(m), m < 2 ** 52, m > -2 ** 52))
    rec(v)
    return out


# ------------------------------------------------------------------------------------
# running generated code
# ------------------------------------------------------------------------------------
class Choice:
    """What the stubbed choice function records instead of choosing."""

    def __init__(self, key, population, weights, cum_weights):
        self.key = key
        self.population = population
        self.weights = weights
        self.cum_weights = cum_weights

    def pysym_eq(self, ctx, other):
        return self is other

    def __repr__(self):
        def safe(v):
            if isinstance(v, (list, tuple)):
                return "[%s]" % ", ".join(safe(e) for e in v[:8]) + ("..." if len(v) > 8 else "")
            try:
                return repr(v)
            except Exception:
                return getattr(v, "show", lambda: "<symbolic>")()[:40]
        return "choice(population=%s, weights=%s%s)" % (safe(self.population), safe(self.weights),
                                                        "" if self.cum_weights is None else ", cum_weights=" + safe(self.cum_weights))


def choice_stub(ctx, interp, args, kwargs):
    names = ["input_id", "population", "weights"]
    kw = dict(kwargs)
    for n, a in zip(names, args):
        if n in kw:
            from vf.pysym.explore import SymRaise
            raise SymRaise(TypeError("deterministic_choice() got multiple values for argument '%s'" % n))
        kw[n] = a
    if "input_id" not in kw or "population" not in kw:
        from vf.pysym.explore import SymRaise
        raise SymRaise(TypeError("deterministic_choice() missing required positional argument"))
    return Choice(kw["input_id"], kw["population"], kw.get("weights"), kw.get("cum_weights"))


def run_generated(text, fn_name, kwargs, stub_choice=True, same_namespace=False, opts=None,
                  assumptions=(), max_paths=20000):
    """Symbolically executes the generated module text as recompile() would exec it and calls
    the experiment function with keyword arguments `kwargs` (pysym values)."""
    def setup(it):
        if stub_choice:
            it.call_overrides["pyab_experiment.binning.binning:deterministic_choice"] = choice_stub
    o = {"float_mode": "real", "prune": True}
    o.update(opts or {})
    return api.run(api.exec_text_and_call(text, fn_name, kwargs=kwargs, globals_module=EVAL_MODULE,
                                          same_namespace=same_namespace),
                   opts=o, setup=setup, assumptions=assumptions, max_paths=max_paths)


def outcome_label(outcome):
    """-> int label | -1 (unroutable) | ('bad', description)"""
    if isinstance(outcome, Return):
        v = outcome.value
        if isinstance(v, Choice):
            pop = v.population
            if isinstance(pop, (list, tuple)) and pop and isinstance(pop[0], str):
                m = re.fullmatch(r"L(\d+)", pop[0])
                if m:
                    return int(m.group(1))
            return ("bad", "population %r carries no label" % (pop,))
        return ("bad", "returned %s instead of a group" % (type(v).__name__,))
    if isinstance(outcome, Raise):
        if outcome.exc_name == "ExperimentConditionalFailedError":
            return -1
        return ("bad", "raised %s" % outcome.exc_name)
    return ("bad", repr(outcome))


def abstract_digests(conds):
    """Replaces every application of an uninterpreted digest function by a fresh bit-vector
    constant (same application -> same constant).  Over-approximates satisfiability; used
    only for reachability twins of bit-precise paths, never for a deciding query."""
    apps = {}

    def collect(t):
        if z3.is_app(t):
            d = t.decl()
            if d.kind() == z3.Z3_OP_UNINTERPRETED and d.arity() > 0 and d.name().endswith("_utf8"):
                key = t.get_id()
                if key not in apps:
                    apps[key] = (t, z3.BitVec("digest!%d" % len(apps), t.sort().size()))
                return
            for c in t.children():
                collect(c)
    for c in conds:
        collect(c)
    if not apps:
        return list(conds)
    mapping = list(apps.values())
    return [z3.substitute(c, *mapping) for c in conds]
