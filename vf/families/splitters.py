"""Programs exercising the key construction: 1-4 splitters in every declaration order,
salt absent / empty / ASCII / non-ASCII / with spaces, with and without conditions."""
from __future__ import annotations

import itertools
import random

from vf.ref.dsl import Program, If, Ret, Group, Lit, Id, Tup, Cmp, And, Or, Not, relabel
from vf.families.programs import R

SALTS = [None, "", "s1", "user_exp_v1", "café-中", "a b", "0", "x+y", "%s",
         # beyond the BMP (a literal written with a surrogate-pair escape does not round-trip), quotes and a backslash
         "\U0001f680-\U00020000", "it's q \\",
         # blanks at the edges are part of the salt (a model layer that strips strings changes the key)
         " lead", "trail ", "\ttab\u00a0", " "]
NAME_SETS = [("uid",), ("b", "a"), ("user_id", "country"), ("Z", "a", "_m"), ("k2", "k10", "k1"),
             ("d", "c", "b", "a"), ("my_fld", "my_fld_1")]


def bodies():
    yield "plain", R(2)
    yield "cond", If(((Cmp(Id("age"), ">", Lit(18)), R(2)),
                      (Cmp(Id("tier"), "in", Tup((Lit("gold"), Lit("silver")))), R(3))), R(1))
    yield "cond_noelse", If(((And(Cmp(Id("age"), ">", Lit(18)), Cmp(Id("plan"), "==", Lit("pro"))), R(2)),), None)
    yield "nested", If(((Cmp(Id("age"), "<", Lit(10)), If(((Cmp(Id("plan"), "!=", Lit("x")), R(2)),), R(1))),), R(2))


def splitter_family(tier, seed):
    rng = random.Random(seed)
    out = []
    for names in NAME_SETS:
        orders = list(itertools.permutations(names))
        if tier != "thorough" and len(orders) > 2:
            rng.shuffle(orders)
            orders = orders[:2]
        for order in orders:
            for bname, body in bodies():
                salts = SALTS if (tier == "thorough" or (bname == "plain" and order == tuple(names))) \
                    else rng.sample(SALTS, 2)
                for salt in salts:
                    out.append((bname, relabel(Program(name="exp", body=body, salt=salt, splitters=order))))
    return out


VALUE_SORTS = ["str", "int", "float", "true", "false", "none"]


def typings(names, tier, seed):
    """assignments of a value sort to each splitter"""
    rng = random.Random(seed * 7 + len(names))
    combos = list(itertools.product(VALUE_SORTS, repeat=len(names)))
    base = [tuple("str" for _ in names), tuple("int" for _ in names), tuple("float" for _ in names)]
    if tier == "thorough":
        if len(combos) > 40:
            rng.shuffle(combos)
            combos = combos[:40]
    else:
        rng.shuffle(combos)
        combos = combos[:2]
    for b in base:
        if b not in combos:
            combos.append(b)
    return [dict(zip(names, c)) for c in combos]
