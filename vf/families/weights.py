"""Weight vectors expressible in the DSL, as (decimal text, python value) pairs."""
from __future__ import annotations

import fractions
import itertools
import math
import random

ALPHABET = ["0", "1", "2", "3", "0.5", "0.1", "0.000000001", "1000000000", "3.4", "999999999"]


def value_of(text, as_float=True):
    """What the real pipeline turns a weight literal into: NON_NEG_FLOAT -> float(text),
    NON_NEG_INTEGER -> int(text); ExperimentGroup.group_weight then coerces to float."""
    if "." in text:
        return float(text)
    return float(int(text)) if as_float else int(text)


def exact(text):
    return fractions.Fraction(text)


def small_vectors(max_n=4):
    for n in range(1, max_n + 1):
        for v in itertools.product(ALPHABET, repeat=n):
            if all(exact(t) == 0 for t in v):
                continue
            yield list(v)


def structured_long():
    out = []
    for n in (8, 16, 32, 64):
        out.append(["1"] * n)
        out.append([str(i + 1) for i in range(n)])                      # ramp
        out.append([str(n - i) for i in range(n)])                      # down ramp
        out.append(["0"] * (n // 2) + ["1"] * (n - n // 2))             # leading zeros
        out.append(["1"] * (n // 2) + ["0"] * (n - n // 2))             # trailing zeros
        out.append([("0" if i % 2 else "3") for i in range(n)])         # interleaved zeros
        out.append([("0.1" if i % 3 else "2.5") for i in range(n)])     # decimals
        out.append(["0.000000001"] * (n - 1) + ["1000000000"])          # extreme magnitudes
        out.append(["1000000000"] + ["0.000000001"] * (n - 1))
    out.append(["1", "2", "3"])
    out.append(["4", "1"])
    out.append(["3.4", "5", "3"])
    out.append(["1", "0"])
    out.append(["0", "1"])
    out.append(["0.5", "0.5"])
    out.append(["0.1", "0.2", "0.3", "0.4"])
    out.append(["0.1", "0.2", "0.3"])
    out.append(["0.3", "0.3"])
    out.append(["1", "1", "2"])
    out.append(["10", "90"])
    out.append(["20", "80"])
    out.append(["1000000000", "1", "1000000000"])
    out.append(["0.000000001", "1000000000", "0.000000001"])
    out.append(["7"])
    out.append(["0.7"])
    out.append(["0.1234567", "0.8765433"])
    out.append(["33.33333", "33.33333", "33.33334"])
    out.append(["1234567", "7654321", "1111111"])
    out.append(["999999.5", "1000000.4", "0.1"])
    # tiny totals with many significant digits (anything that rounds or rescales the running totals shows here)
    out.append(["0.0000000010000004", "0.000000002"])
    out.append(["0.00000000123456789", "0.000000003", "0.0000000025"])
    out.append(["0.000000001000000123", "0.000000001", "0.000000001000000456"])
    return out


def family(tier, seed):
    rng = random.Random(seed)
    smalls = list(small_vectors(4))
    if tier == "thorough":
        rng.shuffle(smalls)
        sel = smalls[:1500]
        longs = structured_long()
    else:
        rng.shuffle(smalls)
        sel = smalls[:24]
        slow = (["1234567", "7654321", "1111111"], ["999999.5", "1000000.4", "0.1"])
        longs = [v for v in structured_long() if len(v) <= 16 and v not in slow]
        more = [v for v in structured_long() if len(v) > 16]
        rng.shuffle(more)
        longs += more[:3]
    seen = set()
    out = []
    for v in longs + sel:
        t = tuple(v)
        if t not in seen:
            seen.add(t)
            out.append(v)
    return out


def boundaries(texts):
    """K[j] = ceil(W_j * 2^32 / W_n), j = 0..n, exact rational prefix sums of the declared
    decimals: group i owns the grid points K[i] <= k < K[i+1]."""
    ws = [exact(t) for t in texts]
    tot = sum(ws)
    acc = fractions.Fraction(0)
    out = [0]
    for w in ws:
        acc += w
        out.append(math.ceil(acc * 2 ** 32 / tot))
    return out
