"""Literal examples (property C05 / C13) and DSL templates placing a literal at a position."""
from __future__ import annotations

STRINGS = ["02134", "inf", "1e5", " 12 ", "1_000", "", "C:\\temp", "it's", 'say "hi"', "é中🙂", "//x", "/* y */",
           "a\\nb", "007", "nan", "-1", "+5", "1.50", ".5", "0x10", "True", "None", "%s", "{0}", "a'+str(1)+'b", "\\",
           "tab\there", "x" * 300, "'", '"', "\\'", "\\\\", "${x}", "line1\\", "\x00nul", "\x85", "\u2028"]

ADVERSARIAL = ["'+str(print('PWNED'))+'", "' or True or '", "\\", "\\'", "');import os;('", "'''", '"""', "\\N{DASH}",
               "\\x41", "{kwargs}", "%(a)s", "a' if True else 'b", "'))#", "\\\n", "');raise SystemExit(('",
               "' + __import__('os').getcwd() + '", '"+str(1)+"', "\\u0041", "\\101", "a\rb"]

INTS = ["0", "7", "18", "9007199254740993", "1" + "0" * 30, "007", "00", "4294967296", "1" + "0" * 299]
NEG_INTS = ["-1", "-9007199254740993", "-0"]
FLOATS = ["1.5", "0.1", "2.50", "3.0", "0.000000001", "1000000000.0", "0.0", "123456789.123456789", "00.5", "1.0000000000000001",
          # shortest repr in exponent notation / beyond 2**53 / many decimals
          "0.00001", "10000000000000000.0", "123456789012345678.0", "0.00000015", "9007199254740993.0", "0.1000000000000000055511151231257827"]
NEG_FLOATS = ["-0.5", "-3.0", "-0.0"]


def quote(s):
    """DSL spelling of a string literal, or None if it is not expressible (newline, both quotes)"""
    if "\n" in s:
        return None
    if '"' not in s:
        return '"' + s + '"'
    if "'" not in s:
        return "'" + s + "'"
    return None


def value_of(lit_text):
    """documented value of a literal spelling"""
    t = lit_text
    if t[:1] in "\"'":
        return t[1:-1]
    neg = t.startswith("-")
    body = t[1:] if neg else t
    v = float(body) if "." in body else int(body)
    return -v if neg else v


TEMPLATES = {
    "salt": 'def exp {{ salt: {lit} splitters: uid return "A" weighted 1, "B" weighted 2 }}',
    "left_term": 'def exp {{ splitters: uid if {lit} == fld {{ return "L0" weighted 1 }} else {{ return "L1" weighted 1 }} }}',
    "right_term": 'def exp {{ splitters: uid if fld == {lit} {{ return "L0" weighted 1 }} else {{ return "L1" weighted 1 }} }}',
    "tuple_member": 'def exp {{ splitters: uid if fld in (1, {lit}, "x") {{ return "L0" weighted 1 }} else {{ return "L1" weighted 1 }} }}',
    "nested_tuple_member": 'def exp {{ splitters: uid if fld not in (({lit}, 2), 3) {{ return "L0" weighted 1 }} else {{ return "L1" weighted 1 }} }}',
    "group_definition": 'def exp {{ splitters: uid return {lit} weighted 1, "B" weighted 2 }}',
    "second_group_definition": 'def exp {{ splitters: uid return "A" weighted 1, {lit} weighted 2, 3 weighted 1 }}',
}


def text_for(position, lit_text):
    return TEMPLATES[position].format(lit=lit_text)
