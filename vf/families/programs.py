"""Finite syntactic families of reference programs (DESIGN.md section 4.4).

Families are enumerated (thorough) or seeded-sampled (quick); each member is a reference
AST that is printed to DSL text and pushed through the real lexer -> parser -> generator.
The *inputs* of each program are never enumerated: they are the solver's variables.
"""
from __future__ import annotations

import itertools
import random

from vf.ref.dsl import (Program, If, Ret, Group, Lit, Id, Tup, Cmp, Not, And, Or, Paren, OPS,
                        relabel)


def R(n=1):
    """placeholder return statement (relabel() assigns the labels)"""
    return Ret(tuple(Group(Lit("g%d" % i), 1) for i in range(n)))


def prog(body, name="exp", salt=None, splitters=("uid",)):
    return relabel(Program(name=name, body=body, salt=salt, splitters=splitters))


# ------------------------------------------------------------------------------------
# single predicates: every operator x operand kinds
# ------------------------------------------------------------------------------------
def single_predicates(include_tuple_ids=False):
    preds = []
    num_lits = [Lit(18), Lit(0), Lit(-1), Lit(2.5), Lit(-0.5), Lit(3.0, text="3.0")]
    str_lits = [Lit("US"), Lit("a", quote="'"), Lit("")]
    for op in ("==", "!=", ">", "<", ">=", "<="):
        for l in num_lits:
            preds.append(Cmp(Id("x"), op, l))
            preds.append(Cmp(l, op, Id("x")))
        for l in str_lits:
            preds.append(Cmp(Id("s"), op, l))
            preds.append(Cmp(l, op, Id("s")))
        preds.append(Cmp(Id("x"), op, Id("y")))
        preds.append(Cmp(Lit(1), op, Lit(2)))
        preds.append(Cmp(Lit(2), op, Lit(2)))
        preds.append(Cmp(Lit("a"), op, Lit("b")))
    for op in ("in", "not in"):
        preds.append(Cmp(Id("x"), op, Tup((Lit(1), Lit(2), Lit(3)))))
        preds.append(Cmp(Id("x"), op, Tup((Lit(-1), Lit(2.5)))))
        preds.append(Cmp(Id("x"), op, Tup((Lit(7),))))
        preds.append(Cmp(Id("s"), op, Tup((Lit("US"), Lit("CA")))))
        preds.append(Cmp(Id("s"), op, Tup((Lit("a", quote="'"), Lit(""), Lit("b c")))))
        preds.append(Cmp(Id("x"), op, Id("c")))
        preds.append(Cmp(Id("s"), op, Id("c")))
        preds.append(Cmp(Lit(3), op, Id("c")))
        preds.append(Cmp(Lit("k"), op, Id("c")))
        preds.append(Cmp(Lit(2), op, Tup((Lit(1), Lit(2)))))
        preds.append(Cmp(Lit("z"), op, Tup((Lit("x"), Lit("y")))))
        preds.append(Cmp(Id("s"), op, Lit("hello")))
        if include_tuple_ids:
            preds.append(Cmp(Id("x"), op, Tup((Id("y"), Lit(2)))))
            preds.append(Cmp(Id("x"), op, Tup((Lit(1), Id("y"), Id("z")))))
    return preds


def single_predicate_programs(include_tuple_ids=False):
    out = []
    for p in single_predicates(include_tuple_ids):
        out.append(prog(If(((p, R()),), R())))
        out.append(prog(If(((p, R()),), None)))
    return out


# ------------------------------------------------------------------------------------
# boolean trees
# ------------------------------------------------------------------------------------
def atom(i):
    return Cmp(Id("f%d" % i), "==", Lit(1))


def bool_trees(n_atoms):
    """All and/or/not trees over atoms a1..an in order (every binary bracketing), with `not`
    optionally applied at every node."""
    def rec(lo, hi):
        if hi - lo == 1:
            base = [atom(lo)]
        else:
            base = []
            for mid in range(lo + 1, hi):
                for l in rec(lo, mid):
                    for r in rec(mid, hi):
                        base.append(And(l, r))
                        base.append(Or(l, r))
        out = []
        for b in base:
            out.append(b)
            out.append(Not(b))
        return out
    return rec(1, n_atoms + 1)


def with_redundant_parens(p, rng):
    """Meaning-preserving redundant parentheses at random nodes."""
    if isinstance(p, Cmp):
        return Paren(p) if rng.random() < 0.4 else p
    if isinstance(p, Not):
        q = Not(with_redundant_parens(p.p, rng))
    elif isinstance(p, (And, Or)):
        q = type(p)(with_redundant_parens(p.l, rng), with_redundant_parens(p.r, rng))
    else:
        q = p
    return Paren(q) if rng.random() < 0.3 else q


def boolean_programs(max_atoms, rng, limit=None, redundant=True):
    preds = []
    for n in range(1, max_atoms + 1):
        preds.extend(bool_trees(n))
    if limit is not None and len(preds) > limit:
        keep = [p for p in preds if _size(p) <= 3]
        rest = [p for p in preds if _size(p) > 3]
        rng.shuffle(rest)
        preds = keep + rest[:max(0, limit - len(keep))]
    out = []
    for p in preds:
        out.append(prog(If(((p, R()),), R())))
        if redundant:
            out.append(prog(If(((with_redundant_parens(p, rng), R()),), R())))
    return out


def _size(p):
    if isinstance(p, Cmp):
        return 1
    if isinstance(p, (Not, Paren)):
        return _size(p.p)
    return _size(p.l) + _size(p.r)


# ------------------------------------------------------------------------------------
# conditional skeletons
# ------------------------------------------------------------------------------------
def skeletons(max_depth, max_chain, counter=None):
    """All conditional shapes: a cond is a return, or a chain of 1..max_chain (if / else if)
    branches with optional else, each branch body a cond of smaller depth."""
    def rec(depth):
        out = [R()]
        if depth == 0:
            return out
        sub = rec(depth - 1)
        for n in range(1, max_chain + 1):
            for bodies in itertools.product(sub, repeat=n):
                for orelse in [None] + sub:
                    out.append(If(tuple((None, b) for b in bodies), orelse))
        return out
    return rec(max_depth)


def fill_predicates(c, fresh):
    """Replace the None predicates of a skeleton by independent atoms over fresh fields."""
    if isinstance(c, Ret):
        return c
    chain = []
    for p, b in c.chain:
        i = next(fresh)
        kind = i % 4
        if kind == 0:
            pr = Cmp(Id("f%d" % i), "==", Lit(1))
        elif kind == 1:
            pr = Cmp(Id("f%d" % i), ">=", Lit(10))
        elif kind == 2:
            pr = Cmp(Id("f%d" % i), "in", Tup((Lit("a"), Lit("b"))))
        else:
            pr = Cmp(Id("f%d" % i), "<", Lit(0))
        chain.append((pr, fill_predicates(b, fresh)))
    return If(tuple(chain), None if c.orelse is None else fill_predicates(c.orelse, fresh))


def skeleton_programs(max_depth, max_chain, rng, limit=None):
    sk = skeletons(max_depth, max_chain)
    sk = [s for s in sk if not isinstance(s, Ret)]
    if limit is not None and len(sk) > limit:
        small = [s for s in sk if _nodes(s) <= 4]
        rest = [s for s in sk if _nodes(s) > 4]
        rng.shuffle(rest)
        sk = small[:limit] + rest[:max(0, limit - len(small))]
    return [prog(fill_predicates(s, itertools.count(1))) for s in sk]


def _nodes(c):
    if isinstance(c, Ret):
        return 0
    return sum(1 + _nodes(b) for p, b in c.chain) + (0 if c.orelse is None else _nodes(c.orelse))


def combined_deep_programs(full=None):
    """chains and nesting COMBINED inside the explored bounds (nesting <= 12, chains <= 60)"""
    import os
    if full is None:
        full = os.environ.get("VERIF_TIER", "quick") == "thorough"
    out = []

    def chain_of(n, var, last_body, orelse):
        links = [(Cmp(Id(var), "==", Lit(i)), R()) for i in range(n - 1)]
        links.append((Cmp(Id(var), "==", Lit(n - 1)), last_body))
        return If(tuple(links), orelse)
    # a 60-link chain inside the last link of a 60-link chain
    inner = chain_of(60, "w", R(), R())
    out.append(prog(chain_of(60, "v", inner, None)))
    # three nested chains of 40
    c = R()
    for d in range(3):
        c = chain_of(40, "v%d" % d, c, R() if d % 2 else None)
    out.append(prog(c))
    # twelve nested chains of 10
    c = R()
    for d in range(12):
        c = chain_of(10, "n%d" % d, c, None if d % 3 else R())
    out.append(prog(c))
    # the corners of the stated bounds and points in between: nesting x chain = 12x60, 12x21, 8x40, 5x60 (the conditional
    # tree is then 720 / 252 / 320 / 300 levels deep: anything that spends more than a constant of Python stack per level
    # of the tree runs out here, the pinned generator does not)
    for nest, ch in (((12, 60),) if full else ()) + ((12, 21), (8, 40), (5, 60)):
        c = R()
        for d in range(nest):
            c = chain_of(ch, "m%d" % d, c, R() if d % 2 else None)
        out.append(prog(c))
    return out


def deep_programs(nesting=12, chain=60):
    # nesting: if f1 { if f2 { ... return } }   with else at alternating levels
    body = R()
    for i in range(nesting, 0, -1):
        body = If(((Cmp(Id("f%d" % i), ">", Lit(i)), body),), R() if i % 2 == 0 else None)
    deep = prog(body)
    ch = tuple((Cmp(Id("v"), "==", Lit(i)), R()) for i in range(chain))
    long_chain = prog(If(ch, R()))
    long_chain_noelse = prog(If(ch, None))
    return [deep, long_chain, long_chain_noelse]


# ------------------------------------------------------------------------------------
# documented examples (transcribed as reference ASTs from the README / docs)
# ------------------------------------------------------------------------------------
def documented_programs():
    out = []
    # language/README.rst "Conditional Logic"
    out.append(prog(If((
        (Cmp(Id("user_id"), "in", Tup((Lit(1), Lit(2), Lit(3)))), R()),
        (And(Cmp(Id("country"), "==", Lit("US")), Cmp(Id("age"), ">=", Lit(18))), R()),
    ), R()), name="doc_conditional", splitters=("uid",)))
    # language/README.rst "Complete Example" (splitters disjoint variant: the shared-field
    # variant belongs to C07)
    out.append(prog(If((
        (And(Cmp(Id("age"), ">=", Lit(21)), Cmp(Id("country"), "in", Tup((Lit("US"), Lit("CA"))))), R(3)),
        (Cmp(Id("country"), "not in", Tup((Lit("US"), Lit("CA")))), R(2)),
    ), R()), name="complex_experiment", salt="user_exp_v1", splitters=("user_id",)))
    # docs/experiment_format.rst / tests full_grammar.pyab
    inner = If((
        (Cmp(Id("field4"), "==", Lit("xyz", quote="'")), R(3)),
        (Cmp(Id("field5"), "!=", Lit("x", quote="'")), R(2)),
        (And(Cmp(Id("field6"), "in", Tup((Lit(1), Lit(2), Lit(3)))),
             Cmp(Id("field7"), "not in", Tup((Lit(8), Lit(9), Lit(10))))), R(2)),
    ), R(2))
    top = Or(And(Cmp(Id("field1"), "==", Lit("a", quote="'")), Not(Cmp(Id("field2"), ">", Lit(4)))),
             Cmp(Id("field3"), "<", Lit(9)))
    out.append(prog(If(((top, inner),), R()), name="complex_experiment_defn", salt="csdvs887",
                    splitters=("my_fld", "my_fld_1")))
    # README.md splitter_test
    out.append(prog(If(((Cmp(Id("field_1"), "==", Lit("a", quote="'")), R(2)),), R(2)),
                    name="basic_experiment_1", splitters=("my_id",)))
    # tests conditional_with_idents.pyab (identifiers on both sides, `in` an identifier)
    out.append(prog(If((
        (Cmp(Id("field1"), "==", Id("field2")), If((
            (Cmp(Id("field2"), "==", Lit("b", quote="'")), R()),
            (Cmp(Id("field2"), "==", Lit("c", quote="'")), R()),), None)),
        (Cmp(Id("field1"), "==", Id("field3")), If((
            (Cmp(Id("field3"), "==", Lit("b1", quote="'")), R()),), None)),
        (Cmp(Id("field1"), "in", Id("field4")), If((
            (Cmp(Id("field1"), "==", Lit("a", quote="'")), R()),
            (Cmp(Id("field1"), "==", Lit("b", quote="'")), R()),
            (Cmp(Id("field1"), "==", Lit("c", quote="'")), R()),), None)),
    ), None), name="basic_experiment", splitters=("uid",)))
    return out


# ------------------------------------------------------------------------------------
# mixed-operator predicates (precedence / associativity under real operators)
# ------------------------------------------------------------------------------------
def mixed_operator_programs(rng, n):
    ops_num = ["==", "!=", ">", "<", ">=", "<="]
    out = []
    for _ in range(n):
        k = rng.randint(2, 4)
        atoms_ = []
        for i in range(1, k + 1):
            if rng.random() < 0.25:
                atoms_.append(Cmp(Id("f%d" % i), rng.choice(["in", "not in"]),
                                  Tup(tuple(Lit(rng.randint(-3, 30)) for _ in range(rng.randint(1, 3))))))
            elif rng.random() < 0.2:
                atoms_.append(Cmp(Id("s%d" % i), rng.choice(["==", "!=", "<", ">="]),
                                  Lit(rng.choice(["a", "US", "zz", ""]))))
            else:
                atoms_.append(Cmp(Id("f%d" % i), rng.choice(ops_num),
                                  Lit(rng.choice([0, 1, 18, -5, 2.5, 100]))))

        def build(items):
            if len(items) == 1:
                p = items[0]
            else:
                m = rng.randint(1, len(items) - 1)
                p = rng.choice([And, Or])(build(items[:m]), build(items[m:]))
            if rng.random() < 0.3:
                p = Not(p)
            return p
        p = build(atoms_)
        if rng.random() < 0.5:
            p = with_redundant_parens(p, rng)
        out.append(prog(If(((p, R()),), R() if rng.random() < 0.7 else None)))
    return out


def routing_family(tier, seed):
    rng = random.Random(seed)
    fam = []
    fam += [("doc", p) for p in documented_programs()]
    fam += [("single", p) for p in single_predicate_programs()]
    if tier == "thorough":
        fam += [("bool", p) for p in boolean_programs(4, rng)]
        fam += [("skeleton", p) for p in skeleton_programs(2, 3, rng, limit=2500)]
        fam += [("skeleton3", p) for p in skeleton_programs(3, 2, rng, limit=600)]
        fam += [("mixed", p) for p in mixed_operator_programs(rng, 600)]
    else:
        fam += [("bool", p) for p in boolean_programs(3, rng)]
        fam += [("bool4", p) for p in boolean_programs(4, rng, limit=150, redundant=False)[-150:]]
        fam += [("skeleton", p) for p in skeleton_programs(2, 2, rng, limit=120)]
        fam += [("mixed", p) for p in mixed_operator_programs(rng, 100)]
    fam += [("deep", p) for p in deep_programs()]
    fam += [("deep-combined", p) for p in combined_deep_programs()]
    ft = fallthrough_programs()
    fam += [("fallthrough", p) for p in (ft if tier == "thorough" else ft[::2])]
    return fam


# ------------------------------------------------------------------------------------
# shapes of code-derived sizes (vf/props/sizes.py: constants the front end compares with)
# ------------------------------------------------------------------------------------
def derived_size_programs(sizes_):
    """for every size s: a tuple operand with s members (in / not in / ==), an and-chain and an or-chain with s atoms, an
    else-if chain with s links, a return with s groups, a condition field whose name has s characters, a string literal
    of s characters as operand and as label, an integer literal of s digits"""
    from vf.ref.dsl import And, Or
    out = []
    for s in sizes_:
        members = tuple(Lit(i) for i in range(s))
        for op in ("in", "not in"):
            out.append(("size-tuple", prog(If(((Cmp(Id("fld"), op, Tup(members)), R()),), R()))))
        out.append(("size-tuple", prog(If(((Cmp(Id("t"), "==", Tup(members[:min(s, 12)])), R()),), R()))))
        atoms = [Cmp(Id("f%d" % i), "==", Lit(i)) for i in range(min(s, 40))]
        if len(atoms) >= 2:
            conj, disj = atoms[0], atoms[0]
            for a in atoms[1:]:
                conj, disj = And(conj, a), Or(disj, a)
            out.append(("size-chain", prog(If(((conj, R()),), R()))))
            out.append(("size-chain", prog(If(((disj, R()),), R()))))
        links = tuple((Cmp(Id("fld"), "==", Lit(i)), R()) for i in range(min(s, 80)))
        out.append(("size-elif", prog(If(links, R()))))
        out.append(("size-groups", prog(Ret(tuple(Group(Lit("g%d" % i), 1 + i % 3) for i in range(min(s, 200)))))))
        name = ("f" + "x" * 400)[:s]
        out.append(("size-ident", prog(If(((Cmp(Id(name), ">", Lit(0)), R()),), R()))))
        text = ("abcdefghij" * 40)[:s]
        out.append(("size-string", prog(If(((Cmp(Id("fld"), "==", Lit(text)), Ret((Group(Lit(text), 1),))),), R()))))
        digits = ("1234567890" * 40)[:s]
        out.append(("size-int", prog(If(((Cmp(Id("fld"), "==", Lit(int(digits))), R()),), R()))))
    return out


# ------------------------------------------------------------------------------------
# irregular else-if / else / nesting placements
# ------------------------------------------------------------------------------------
def fallthrough_programs():
    """An outer chain (2 or 3 links, with and without else) whose FIRST link's body is an inner chain of three links closed
    by an else (and one closed by nothing); every inner body is one of: return | if-without-else | if-with-else.  These
    are the shapes where 'this branch always returns' reasoning, elif/else re-attachment and indentation bookkeeping go
    wrong while all small skeletons and all regular deep shapes stay right: 3^3 x 2 x 2 + variants."""
    import itertools
    out = []
    counter = [0]

    def fld():
        counter[0] += 1
        return "q%d" % counter[0]

    def body(kind):
        if kind == "ret":
            return R()
        if kind == "if":
            return If(((Cmp(Id(fld()), "==", Lit(1)), R()),), None)
        return If(((Cmp(Id(fld()), "==", Lit(1)), R()),), R())
    for kinds in itertools.product(("ret", "if", "ifelse"), repeat=3):
        for inner_else in (True, False):
            if not inner_else and kinds[1] == "ret" and kinds != ("ret", "ret", "ret"):
                continue        # thin out the variants without inner else
            for outer_links in (2, 3):
                for outer_else in (False, True):
                    counter[0] = 0
                    inner = If(tuple((Cmp(Id(fld()), "==", Lit(1)), body(k)) for k in kinds), R() if inner_else else None)
                    links = [(Cmp(Id(fld()), "==", Lit(1)), inner)]
                    for _ in range(outer_links - 1):
                        links.append((Cmp(Id(fld()), "==", Lit(1)), R()))
                    out.append(prog(If(tuple(links), R() if outer_else else None)))
    return out
