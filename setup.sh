#!/bin/bash
# Builds /verif/.venv: an overlay over the repository's /venv (pydantic, black, sly deps)
# plus z3-solver / cvc5 from the offline wheelhouse.  Idempotent, offline.
set -e
cd "$(dirname "$0")"
export PIP_NO_INDEX=1 PIP_DISABLE_PIP_VERSION_CHECK=1
VENV=/verif/.venv
if [ -x "$VENV/bin/python" ] && "$VENV/bin/python" -c "import z3, pydantic, black" 2>/dev/null; then
    exit 0
fi
rm -rf "$VENV"
/venv/bin/python -m venv "$VENV" >/dev/null
SP=$("$VENV/bin/python" -c "import sysconfig; print(sysconfig.get_paths()['purelib'])")
printf '/venv/lib/python3.12/site-packages\n' > "$SP/verif_overlay.pth"
"$VENV/bin/pip" install -q --no-index --find-links /opt/veriftools/wheels z3-solver cvc5 >/dev/null 2>&1 || \
"$VENV/bin/pip" install -q --no-index --find-links /opt/veriftools/wheels z3-solver >/dev/null
"$VENV/bin/python" -c "import z3, pydantic, black; print('verif venv ready: z3', z3.get_version_string())"
